#!/bin/bash
# tools/seed_eval.sh <ID> <check ids...>: confirm a sub-agent's seeded change in its scratch worktree $SEEDS_DIR/<ID>
# (default /tmp/seeds), run the named checks against it, and store patch + demo + meta under /verif/seeded/<ID>$SEED_SUFFIX/.
# Nothing is committed to /repo. (git stash is shared between worktrees: the unchanged tree is reached with git apply -R.)
set -u
ID=$1; shift
SD=${SEEDS_DIR:-/tmp/seeds}
W=$SD/$ID
OUT=/verif/seeded/$ID${SEED_SUFFIX:-}
mkdir -p $OUT
cd $W || exit 2
git diff > $OUT/patch.diff
demo_cmd="cargo test --offline ${SEED_FEATURES:-} --test seed_demo"
if [ -f seed_demo.sh ]; then cp seed_demo.sh $OUT/; demo_cmd="./seed_demo.sh"; fi
[ -f tests/seed_demo.rs ] && cp tests/seed_demo.rs $OUT/seed_demo.rs
[ -d tests/seed_demo_crate ] && { rm -rf $OUT/seed_demo_crate; cp -r tests/seed_demo_crate $OUT/; rm -rf $OUT/seed_demo_crate/target $OUT/seed_demo_crate/Cargo.lock; }
[ -f tests/seed_demo.rs ] && mv tests/seed_demo.rs $SD/$ID.demo.rs
suite=$(cargo test --workspace --no-fail-fast --offline 2>&1 | grep -E "^test result" | awk '{p+=$4; f+=$6} END {print p" passed, "f" failed"}')
[ -f $SD/$ID.demo.rs ] && mv $SD/$ID.demo.rs tests/seed_demo.rs
with=$($demo_cmd 2>&1; echo "exit=$?"); with=$(echo "$with" | grep -E "^test result|^error(\[|:)|^exit=|FAILED|identical" | head -3 | tr '\n' ' ')
git diff > $SD/$ID.eval.patch; git apply -R $SD/$ID.eval.patch
without=$($demo_cmd 2>&1; echo "exit=$?"); without=$(echo "$without" | grep -E "^test result|^error(\[|:)|^exit=|FAILED|identical" | head -3 | tr '\n' ' ')
git apply $SD/$ID.eval.patch
echo "suite with change: $suite"; echo "demo with change: $with"; echo "demo without change: $without"
cd /verif
results=""
for c in "$@"; do
  r=$(VERIF_REPO=$W VERIF_EVIDENCE_DIR=/verif/work/mutant-evidence ./check $c --tier quick 2>&1); code=$?
  line=$(echo "$r" | grep -m1 -E "what:|INCONCLUSIVE|^OK" | cut -c1-300)
  echo "check $c exit=$code $line"
  results="$results{\"check\":\"$c\",\"exit\":$code,\"line\":$(python3 -c 'import json,sys; print(json.dumps(sys.argv[1]))' "$line")},"
done
python3 - "$OUT" "$ID" "$suite" "$with" "$without" "[${results%,}]" <<'PY'
import json,sys
out,id,suite,w,wo,res=sys.argv[1:7]
meta={"property":id,"breaks_property":id,"suite_with_change":suite,"demo_with_change":w.strip(),"demo_without_change":wo.strip(),"checks_run_first_pass":json.loads(res),
      "origin":"independent sub-agent given only the property text and its own scratch worktree",
      "ran":"tools/seed_eval.sh in the sub-agent's scratch worktree (suite with change, demo with/without change via git apply -R, then ./check with VERIF_REPO pointing at the worktree)"}
p=f"{out}/meta.json"
try: old=json.load(open(p))
except Exception: old={}
old.update(meta); json.dump(old,open(p,"w"),indent=1)
PY
for d in $(ls -d /verif/work/e2-* 2>/dev/null); do [ "$(cat "$d/.owner" 2>/dev/null)" = "$W" ] && rm -rf "$d"; done
