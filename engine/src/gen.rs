//! Source-level grammar generators (syntax only; nothing here needs to type-check).
//! Every generator reads its choices from a `Tape`, simplest alternative first.

use crate::tape::Tape;

pub const LOWER: [&str; 12] = ["a", "b", "c", "x", "y", "z", "val", "item", "n", "k", "q", "w"];
pub const TYPES_SIMPLE: [&str; 10] = ["i32", "u8", "bool", "String", "&str", "usize", "u64", "char", "f32", "()"];

pub fn lower(t: &mut Tape) -> String {
    t.pick(&LOWER).to_string()
}

// ---------- attributes ----------

/// A foreign (non-entrait) outer attribute. `marker` makes it unique/recognisable when given.
pub fn gen_foreign_attr(t: &mut Tape, marker: Option<&str>) -> String {
    let m = marker.unwrap_or("mk");
    match t.weighted(&[3, 3, 2, 2, 2, 2, 1, 1, 1, 1, 1]) {
        0 => "#[inline]".to_string(),
        1 => format!("/// doc {m}\n"),
        2 => "#[allow(unused)]".to_string(),
        3 => format!("#[{m}]"),
        4 => format!("#[{m}::attr(key = \"v\", 1 + 2, [a, b], {{ x }})]"),
        5 => format!("#[doc = \"{m} text\"]"),
        6 => "#[cfg_attr(all(), inline)]".to_string(),
        7 => "#[cfg(all())]".to_string(),
        8 => "#[deprecated(note = \"x\")]".to_string(),
        9 => format!("/** block doc {m} */"),
        _ => format!("#[::{m}::path::attr]"),
    }
}

/// the `async_trait` attribute under one of the paths that lead to it (the macro recognises it by its last segment)
pub fn async_trait_attr(t: &mut Tape) -> String {
    (*t.pick(&["#[async_trait::async_trait]", "#[::async_trait::async_trait]", "#[async_trait]", "#[axum::async_trait]", "#[crate::prelude::async_trait]"])).to_string()
}

pub fn gen_attrs(t: &mut Tape, max: usize) -> Vec<String> {
    let n = t.weighted(&[5, 3, 2, 1]).min(max);
    (0..n).map(|_| gen_foreign_attr(t, None)).collect()
}

// ---------- visibility ----------

pub const VIS_FORMS: [&str; 6] = ["", "pub", "pub(crate)", "pub(super)", "pub(self)", "pub(in crate::a)"];

pub fn gen_vis(t: &mut Tape) -> String {
    VIS_FORMS[t.weighted(&[4, 4, 2, 1, 1, 1])].to_string()
}

pub fn gen_explicit_vis(t: &mut Tape) -> String {
    VIS_FORMS[1 + t.weighted(&[4, 2, 1, 1, 1])].to_string()
}

// ---------- types ----------

pub fn gen_type(t: &mut Tape, depth: usize) -> String {
    if depth == 0 {
        return t.pick(&TYPES_SIMPLE).to_string();
    }
    match t.weighted(&[8, 2, 2, 2, 2, 1, 1, 1, 1, 1, 1, 1, 1, 1, 1, 1]) {
        0 => t.pick(&TYPES_SIMPLE).to_string(),
        1 => format!("&{}", gen_type(t, depth - 1)),
        2 => format!("&'a {}", gen_type(t, depth - 1)),
        3 => format!("&mut {}", gen_type(t, depth - 1)),
        4 => format!("Option<{}>", gen_type(t, depth - 1)),
        5 => format!("({}, {})", gen_type(t, depth - 1), gen_type(t, depth - 1)),
        6 => format!("[{}; 3]", gen_type(t, depth - 1)),
        7 => format!("[{}; {{ N + 1 }}]", gen_type(t, depth - 1)),
        8 => format!("Vec<{}>", gen_type(t, depth - 1)),
        9 => format!("impl Fn({}) -> {}", gen_type(t, depth - 1), gen_type(t, depth - 1)),
        10 => format!("Box<dyn Fn({}) + Send + 'static>", gen_type(t, depth - 1)),
        11 => format!("fn({}) -> {}", gen_type(t, depth - 1), gen_type(t, depth - 1)),
        12 => "<T as Tr>::Assoc".to_string(),
        13 => format!("std::collections::HashMap<{}, {}>", gen_type(t, depth - 1), gen_type(t, depth - 1)),
        14 => format!("*const {}", gen_type(t, depth - 1)),
        _ => format!("&[{}]", gen_type(t, depth - 1)),
    }
}

// ---------- patterns ----------

/// (pattern source, lower-case binding names in it, is plain `ident`)
pub struct Pat {
    pub src: String,
    pub bindings: Vec<String>,
    pub plain: bool,
}

/// Irrefutable-looking parameter patterns. `fresh` hands out unique binding names.
pub fn gen_pat(t: &mut Tape, fresh: &mut dyn FnMut() -> String) -> Pat {
    let p = |src: String, bindings: Vec<String>, plain: bool| Pat { src, bindings, plain };
    match t.weighted(&[10, 2, 2, 2, 2, 2, 2, 1, 1, 1, 1, 1, 1, 1]) {
        0 => {
            let a = fresh();
            p(a.clone(), vec![a], true)
        }
        1 => p("_".into(), vec![], false),
        2 => {
            let a = fresh();
            p(format!("mut {a}"), vec![a], false)
        }
        3 => {
            let (a, b) = (fresh(), fresh());
            p(format!("({a}, {b})"), vec![a, b], false)
        }
        4 => {
            let a = fresh();
            p(format!("N({a})"), vec![a], false)
        }
        5 => {
            let a = fresh();
            p(format!("N({a}, _)"), vec![a], false)
        }
        6 => {
            let a = fresh();
            p(format!("S {{ {a} }}"), vec![a], false)
        }
        7 => {
            let a = fresh();
            p(format!("&{a}"), vec![a], false)
        }
        8 => {
            let a = fresh();
            p(format!("ref {a}"), vec![a], false)
        }
        9 => {
            let (a, b) = (fresh(), fresh());
            p(format!("S {{ f: {a}, g: N({b}), .. }}"), vec![a, b], false)
        }
        10 => {
            let (a, b) = (fresh(), fresh());
            p(format!("{a} @ ({b}, _)"), vec![a, b], false)
        }
        11 => {
            let a = fresh();
            p(format!("[{a}, ..]"), vec![a], false)
        }
        12 => p("N(_, _)".into(), vec![], false),
        _ => {
            let a = fresh();
            p(format!("N(N({a}))"), vec![a], false)
        }
    }
}

// ---------- opaque token soup ----------

const SOUP_ATOMS: [&str; 64] = [
    "x", "self", "Self", "r#fn", "fn", "pub", "mod", "impl", "trait", "struct", "match", "async", "await", "dyn", "_", "let",
    "+", "-", "*", "/", "%", "^", "!", "&", "|", "&&", "||", "<<", ">>", "+=", "==", "!=", "<", ">", "<=", ">=", "@", ".", "..",
    "...", "..=", ",", ";", ":", "::", "->", "=>", "#", "$", "?", "~", "=", "1", "1u8", "1e3f32", "0x1F", "\"s\"", "r#\"raw \" x\"#",
    "b'x'", "b\"bytes\"", "'c'", "1.5", "'a", "'static",
];

/// Balanced token soup: lexes, but need not parse as anything.
pub fn gen_soup(t: &mut Tape, depth: usize, max_len: usize) -> String {
    let n = t.range(0, max_len);
    let mut s = String::new();
    for _ in 0..n {
        let k = t.weighted(&[12, 1, 1, 1]);
        if k == 0 || depth == 0 {
            s.push_str(SOUP_ATOMS[t.choose(SOUP_ATOMS.len())]);
        } else {
            let inner = gen_soup(t, depth - 1, max_len / 2);
            match k {
                1 => s.push_str(&format!("({inner})")),
                2 => s.push_str(&format!("[{inner}]")),
                _ => s.push_str(&format!("{{{inner}}}")),
            }
        }
        // a space keeps the lexer from gluing atoms into something else (`1` `.` `5`, `'a` `'`)
        s.push(' ');
    }
    s
}

/// A fn body: `{ soup }` (nested brace groups likely) — or, rarely, `;`
pub fn gen_body(t: &mut Tape) -> String {
    match t.weighted(&[3, 6, 1]) {
        0 => "{}".to_string(),
        1 => format!("{{ {} }}", gen_soup(t, 3, 10)),
        _ => ";".to_string(),
    }
}

// ---------- generics ----------

pub struct Generics {
    pub params: Vec<String>,
    pub where_preds: Vec<String>,
}

impl Generics {
    pub fn params_src(&self) -> String {
        if self.params.is_empty() {
            String::new()
        } else {
            format!("<{}>", self.params.join(", "))
        }
    }
    pub fn where_src(&self) -> String {
        if self.where_preds.is_empty() {
            String::new()
        } else {
            format!(" where {}", self.where_preds.join(", "))
        }
    }
}

pub const BOUND_POOL: [&str; 8] = ["A", "B", "C", "a::Tr", "Clone", "Send", "Tr<i32>", "::core::fmt::Debug"];

/// extra (non-deps) generic params and where predicates
pub fn gen_extra_generics(t: &mut Tape, g: &mut Generics) {
    let n = t.weighted(&[6, 3, 2, 1]);
    for i in 0..n {
        match t.weighted(&[4, 2, 2, 1, 1]) {
            0 => g.params.push(format!("T{i}")),
            1 => g.params.push(format!("T{i}: {}", t.pick(&BOUND_POOL))),
            2 => g.params.insert(0, format!("'l{i}")),
            3 => g.params.push(format!("const N{i}: usize")),
            _ => {
                g.params.push(format!("U{i}"));
                g.where_preds.push(format!("U{i}: {} + 'static", t.pick(&BOUND_POOL)));
            }
        }
    }
    if t.chance(1, 6) {
        g.where_preds.push("Vec<i32>: Clone".into());
    }
    if t.chance(1, 8) {
        g.where_preds.push("for<'x> &'x str: Sized".into());
    }
}

// ---------- functions ----------

#[derive(Clone, Debug)]
pub struct FnSrc {
    pub attrs: Vec<String>,
    pub vis: String,
    pub quals: String,
    pub name: String,
    pub generics: String,
    pub params: Vec<String>,
    pub ret: String,
    pub where_: String,
    pub body: String,
}

impl FnSrc {
    pub fn render(&self) -> String {
        let mut s = String::new();
        for a in &self.attrs {
            s.push_str(a);
            if !a.ends_with('\n') {
                s.push(' ');
            }
        }
        if !self.vis.is_empty() {
            s.push_str(&self.vis);
            s.push(' ');
        }
        s.push_str(&self.quals);
        s.push_str("fn ");
        s.push_str(&self.name);
        s.push_str(&self.generics);
        s.push('(');
        s.push_str(&self.params.join(", "));
        s.push(')');
        s.push_str(&self.ret);
        s.push_str(&self.where_);
        s.push(' ');
        s.push_str(&self.body);
        s
    }
}

pub const QUALS: [&str; 9] = [
    "",
    "async ",
    "unsafe ",
    "const ",
    "extern \"C\" ",
    "async unsafe ",
    "const unsafe ",
    "unsafe extern \"C\" ",
    "extern ",
];

#[derive(Clone, Copy, PartialEq, Eq, Debug)]
pub enum DepsForm {
    GenericRef,
    ImplRef,
    GenericVal,
    ImplVal,
    ConcreteRef,
    NoDeps,
}

pub struct FnGenCfg {
    pub allow_concrete: bool,
    pub allow_no_deps: bool,
    /// leading `unsafe` is a known finding for single fns (F1) until fixed
    pub allow_leading_unsafe: bool,
    pub rich_syntax: bool,
    /// opaque token-soup bodies (E1 token properties) vs. bodies every parser accepts
    pub soup_bodies: bool,
}

/// A syntactically rich fn that the macro should accept. Returns the fn and its deps form.
pub fn gen_fn(t: &mut Tape, name: &str, vis: String, cfg: &FnGenCfg) -> (FnSrc, DepsForm) {
    let mut g = Generics { params: vec![], where_preds: vec![] };
    let mut forms = vec![DepsForm::GenericRef, DepsForm::ImplRef, DepsForm::GenericVal, DepsForm::ImplVal];
    if cfg.allow_concrete {
        forms.push(DepsForm::ConcreteRef);
    }
    if cfg.allow_no_deps {
        forms.push(DepsForm::NoDeps);
    }
    let form = *t.pick(&forms);
    let bounds = {
        let n = t.weighted(&[4, 3, 2, 1]);
        (0..n).map(|_| t.pick(&BOUND_POOL).to_string()).collect::<Vec<_>>()
    };
    let mut params: Vec<String> = vec![];
    let mut counter = 0usize;
    let mut fresh = || {
        counter += 1;
        format!("p{counter}")
    };
    match form {
        DepsForm::GenericRef | DepsForm::GenericVal => {
            let amp = if form == DepsForm::GenericRef { "&" } else { "" };
            // split bounds between inline and where
            let k = t.choose(bounds.len() + 1);
            let inline = &bounds[..k];
            let wher = &bounds[k..];
            // sometimes the dependency parameter only has bounds that impose nothing on the implementing type (`?Sized`, a
            // lifetime), alone or in front of the others
            let relaxed = match (form == DepsForm::GenericRef, t.weighted(&[10, 1, 1])) {
                (true, 1) => Some("?Sized"),
                (_, 2) => Some("'static"),
                _ => None,
            };
            let mut inline: Vec<String> = inline.to_vec();
            if let Some(r) = relaxed {
                inline.insert(0, r.to_string());
            }
            g.params.push(if inline.is_empty() { "D".to_string() } else { format!("D: {}", inline.join(" + ")) });
            if !wher.is_empty() {
                g.where_preds.push(format!("D: {}", wher.join(" + ")));
            }
            params.push(format!("deps: {amp}D"));
        }
        DepsForm::ImplRef | DepsForm::ImplVal => {
            let amp = if form == DepsForm::ImplRef { "&" } else { "" };
            let b = if bounds.is_empty() { "::core::any::Any".to_string() } else { bounds.join(" + ") };
            if amp.is_empty() {
                params.push(format!("deps: impl {b}"));
            } else if bounds.len() >= 2 || t.chance(1, 4) {
                // `&impl A + B` is ambiguous (rejected by rustc); parenthesise
                params.push(format!("deps: &(impl {b})"));
            } else {
                params.push(format!("deps: &impl {b}"));
            }
        }
        DepsForm::ConcreteRef => {
            let ty = *t.pick(&["Conf", "a::Conf", "G<i32>", "(i32, u8)", "[u8; 4]"]);
            params.push(format!("conf: &{ty}"));
        }
        DepsForm::NoDeps => {}
    }
    if cfg.rich_syntax {
        gen_extra_generics(t, &mut g);
    }
    let n_params = t.weighted(&[3, 4, 3, 2, 1, 1]);
    for _ in 0..n_params {
        let pat = if cfg.rich_syntax { gen_pat(t, &mut fresh).src } else { fresh() };
        let ty = gen_type(t, if cfg.rich_syntax { 2 } else { 0 });
        let attr = if cfg.rich_syntax && t.chance(1, 8) { "#[mk_param] " } else { "" };
        params.push(format!("{attr}{pat}: {ty}"));
    }
    let mut quals_choices: Vec<&str> = QUALS.to_vec();
    if !cfg.allow_leading_unsafe {
        quals_choices.retain(|q| !q.starts_with("unsafe"));
    }
    let quals = if cfg.rich_syntax {
        let mut w = vec![1u32; quals_choices.len()];
        w[0] = 6;
        quals_choices[t.weighted(&w)].to_string()
    } else {
        String::new()
    };
    let ret = match t.weighted(&[3, 4, 1, 1]) {
        0 => String::new(),
        1 => format!(" -> {}", gen_type(t, if cfg.rich_syntax { 2 } else { 0 })),
        2 => " -> impl Iterator<Item = u8> + '_".to_string(),
        _ => " -> Result<(), Box<dyn std::error::Error + Send + Sync>>".to_string(),
    };
    let f = FnSrc {
        attrs: if cfg.rich_syntax { gen_attrs(t, 3) } else { vec![] },
        vis,
        quals,
        name: name.to_string(),
        generics: g.params_src(),
        params,
        ret,
        where_: g.where_src(),
        body: if cfg.soup_bodies { gen_body(t) } else { "{}".to_string() },
    };
    let mut f = f;
    if cfg.soup_bodies && cfg.rich_syntax {
        // signature tokens that a parse-and-print cycle does not preserve: empty generics, an empty where clause, and a
        // tuple index pair (`t.1.0` is lexed as one float literal) inside a const expression of the return type
        if f.generics.is_empty() && t.chance(1, 12) {
            f.generics = "<>".to_string();
        }
        if f.where_.is_empty() && t.chance(1, 12) {
            f.where_ = " where".to_string();
        }
        if t.chance(1, 16) {
            f.ret = " -> [u8; { let t = (1usize, (2usize, 3usize)); t.1.0 + t.1.1 }]".to_string();
        }
    }
    (f, form)
}

// ---------- entrait attribute arguments ----------

#[derive(Clone, Debug, Default)]
pub struct AttrOpts {
    /// rendered options in order, e.g. ["no_deps", "unimock = false"]
    pub opts: Vec<String>,
}

/// Valid fn/mod attribute: `[vis] Trait [, opts]`
pub fn gen_fn_attr(t: &mut Tape, trait_name: &str, no_deps: bool) -> String {
    let vis = gen_vis(t);
    let mut parts = vec![if vis.is_empty() { trait_name.to_string() } else { format!("{vis} {trait_name}") }];
    if no_deps {
        parts.push(if t.flip() { "no_deps".into() } else { "no_deps = true".into() });
    }
    let pool = [
        "export", "export = false", "export = true", "?Send", "mock_api = FooMock", "unimock", "unimock = false", "unimock = true", "mockall",
        "mockall = false", "no_deps = false",
    ];
    let n = t.weighted(&[5, 3, 2, 1]);
    for _ in 0..n {
        let o = *t.pick(&pool);
        if no_deps && o.starts_with("no_deps") {
            continue;
        }
        parts.push(o.to_string());
    }
    parts.join(", ")
}

// ---------- module items ----------

#[derive(Clone, Debug, PartialEq, Eq)]
pub enum ModItemKind {
    VisibleFn(String),
    PrivateFn,
    Bodyless,
    Other,
}

#[derive(Clone, Debug)]
pub struct ModItemSrc {
    pub src: String,
    pub kind: ModItemKind,
    pub decoy: bool,
}

/// Non-fn module items; many contain `fn` tokens / visibility keywords / brace groups / semicolons (decoys).
pub fn gen_other_item(t: &mut Tape, i: usize) -> ModItemSrc {
    const ITEMS: [(&str, bool); 34] = [
        ("struct S# { pub x: i32 }", false),
        ("pub struct T#(pub i32, pub(crate) u8);", false),
        ("pub struct U#;", false),
        ("use std::fmt::Debug as _;", false),
        ("pub use self::inner#::*;", false),
        ("pub const C#: i32 = 1;", false),
        ("const D#: [u8; 2] = [1, 2];", false),
        ("pub static F#: fn(i32) -> i32 = { fn f(x: i32) -> i32 { x } f };", true),
        ("pub type G# = fn(i32) -> i32;", true),
        ("struct H# { pub f: fn() -> i32, pub g: Box<dyn Fn(i32)> }", true),
        ("impl S# { pub fn inherent(&self) {} pub(crate) fn other() {} }", true),
        ("pub mod inner# { pub fn nested(d: &impl Sized) {} }", true),
        ("mod private# { pub fn nested(d: &impl Sized) {} }", true),
        ("extern \"C\" { pub fn c_fn#(x: i32) -> i32; }", true),
        ("pub extern \"C\" { fn c_fn2#(x: i32); }", true),
        ("macro_rules! m# { () => { pub fn from_macro(d: &impl Sized) {} }; }", true),
        ("m#! { pub fn inside_macro(d: &impl Sized) {} }", true),
        ("m#!( pub fn inside_paren_macro(d: &impl Sized) {} );", true),
        ("const _: () = { pub fn in_const(d: &impl Sized) {} };", true),
        ("pub const K#: S = S { a: 1 };", false),
        ("pub static L#: &[fn()] = &[];", true),
        ("pub enum E# { A, B { x: i32 }, C(fn()) }", true),
        ("pub union V# { a: u32, b: f32 }", false),
        ("pub trait Tr# { fn required(&self); fn provided(&self) {} }", true),
        ("impl Tr# for S# { fn required(&self) {} }", true),
        ("pub extern crate core as core#;", false),
        ("#[derive(Clone)] pub struct W#<T: Clone = ()> { t: T }", false),
        ("pub struct X#<const N: usize = { 1 + 2 }>([u8; N]);", false),
        ("pub const fn_like#: i32 = 3;;", false),
        ("pub type Alias#<T> where T: Clone = Vec<T>;", false),
        ("pub(crate) static mut M#: i32 = { 0 };", false),
        ("pub async fn_#;", false),
        ("pub trait Marker# {}", false),
        ("pub const M2#: usize = match 1 { _ => 2 };", false),
    ];
    // `pub async fn_#;` is not valid Rust; keep only entries rustc's parser accepts
    let mut idx = t.choose(ITEMS.len());
    if ITEMS[idx].0.starts_with("pub async fn_") {
        idx = 0;
    }
    let (tpl, decoy) = ITEMS[idx];
    let mut src = tpl.replace('#', &i.to_string());
    if t.chance(1, 5) {
        src = format!("{} {}", gen_foreign_attr(t, None), src);
    }
    ModItemSrc { src, kind: ModItemKind::Other, decoy }
}

pub fn gen_mod_item(t: &mut Tape, i: usize, cfg: &FnGenCfg) -> ModItemSrc {
    match t.weighted(&[5, 2, 1, 5]) {
        0 => {
            let name = format!("{}_vis_fn{i}", crate::prog::NAME_POOL[(i * 5 + 3) % 8]);
            let vis = gen_explicit_vis(t);
            let (f, _) = gen_fn(t, &name, vis, cfg);
            let mut f = f;
            if f.body == ";" {
                f.body = "{}".into();
            }
            ModItemSrc { src: f.render(), kind: ModItemKind::VisibleFn(name), decoy: false }
        }
        1 => {
            let name = format!("{}_priv_fn{i}", crate::prog::NAME_POOL[(i * 3 + 1) % 8]);
            let (mut f, _) = gen_fn(t, &name, String::new(), cfg);
            if f.body == ";" {
                f.body = "{}".into();
            }
            ModItemSrc { src: f.render(), kind: ModItemKind::PrivateFn, decoy: true }
        }
        2 => {
            let name = format!("bodyless_fn{i}");
            let vis = gen_explicit_vis(t);
            let (mut f, _) = gen_fn(t, &name, vis, cfg);
            f.body = ";".into();
            ModItemSrc { src: f.render(), kind: ModItemKind::Bodyless, decoy: true }
        }
        _ => gen_other_item(t, i),
    }
}

// ---------- traits ----------

#[derive(Clone, Debug)]
pub struct TraitMethodSrc {
    pub attrs: Vec<String>,
    pub quals: String,
    pub name: String,
    pub generics: String,
    pub receiver: String,
    pub params: Vec<String>,
    pub ret: String,
    pub where_: String,
    /// None => `;`
    pub body: Option<String>,
}

impl TraitMethodSrc {
    pub fn render(&self) -> String {
        let mut s = String::new();
        for a in &self.attrs {
            s.push_str(a);
            if !a.ends_with('\n') {
                s.push(' ');
            }
        }
        s.push_str(&self.quals);
        s.push_str("fn ");
        s.push_str(&self.name);
        s.push_str(&self.generics);
        s.push('(');
        let mut ps = vec![];
        if !self.receiver.is_empty() {
            ps.push(self.receiver.clone());
        }
        ps.extend(self.params.iter().cloned());
        s.push_str(&ps.join(", "));
        s.push(')');
        s.push_str(&self.ret);
        s.push_str(&self.where_);
        match &self.body {
            None => s.push(';'),
            Some(b) => {
                s.push(' ');
                s.push_str(b);
            }
        }
        s
    }
}

#[derive(Clone, Debug)]
pub enum TraitItemSrc {
    Method(TraitMethodSrc),
    AssocType(String),
    Other(String),
}

#[derive(Clone, Debug)]
pub struct TraitSrc {
    pub attrs: Vec<String>,
    pub vis: String,
    pub unsafety: bool,
    pub name: String,
    pub generics: String,
    pub supertraits: String,
    pub where_: String,
    pub items: Vec<TraitItemSrc>,
    /// inner attributes / inner doc comments at the top of the trait's body
    pub inner_attrs: Vec<String>,
}

impl TraitSrc {
    pub fn render(&self) -> String {
        let mut s = String::new();
        for a in &self.attrs {
            s.push_str(a);
            if !a.ends_with('\n') {
                s.push(' ');
            }
        }
        if !self.vis.is_empty() {
            s.push_str(&self.vis);
            s.push(' ');
        }
        if self.unsafety {
            s.push_str("unsafe ");
        }
        s.push_str("trait ");
        s.push_str(&self.name);
        s.push_str(&self.generics);
        s.push_str(&self.supertraits);
        s.push_str(&self.where_);
        s.push_str(" {\n");
        for a in &self.inner_attrs {
            s.push_str(a);
            s.push('\n');
        }
        for it in &self.items {
            match it {
                TraitItemSrc::Method(m) => s.push_str(&m.render()),
                TraitItemSrc::AssocType(x) | TraitItemSrc::Other(x) => s.push_str(x),
            }
            s.push('\n');
        }
        s.push('}');
        s
    }
    pub fn has_async(&self) -> bool {
        self.items.iter().any(|i| matches!(i, TraitItemSrc::Method(m) if m.quals.contains("async")))
    }
}

pub struct TraitGenCfg {
    /// only `&self` receivers (the documented domain) vs. every receiver shape incl. none
    pub ref_self_only: bool,
    /// non-ident parameter patterns (`_`, destructuring) — F6 while open
    pub patterns: bool,
    pub default_bodies: bool,
    pub assoc_types: bool,
    pub other_items: bool,
    pub unsafety: bool,
    pub trait_attrs: bool,
    pub method_attrs: bool,
    pub generics: bool,
    pub async_methods: bool,
}

pub fn gen_trait(t: &mut Tape, name: &str, cfg: &TraitGenCfg) -> TraitSrc {
    let mut generics = String::new();
    let mut where_ = String::new();
    let mut supertraits = String::new();
    if cfg.generics {
        match t.weighted(&[6, 2, 1, 1, 1, 1, 1, 1, 1]) {
            0 => {}
            1 => generics = "<U>".into(),
            // defaults belong to the trait declaration (and are not allowed on the generated impl)
            6 => generics = "<U = u32>".into(),
            7 => generics = "<U: Clone = a::Def, const K: usize = 3>".into(),
            8 => {
                generics = "<U: ?Sized>".into();
                where_ = " where U: ::core::fmt::Debug".into();
            }
            2 => {
                generics = "<U: Clone, const K: usize>".into();
            }
            3 => {
                generics = "<'t, U>".into();
                where_ = " where U: 't + Send".into();
            }
            // declaration orders a normalising printer would change
            4 => generics = "<const K: usize, U>".into(),
            _ => generics = "<W, const K: usize, U: Clone>".into(),
        }
        match t.weighted(&[6, 2, 1, 1]) {
            0 => {}
            1 => supertraits = ": Send".into(),
            2 => supertraits = ": Sup + 'static".into(),
            _ => supertraits = ": a::Sup<i32> + Sync".into(),
        }
        if where_.is_empty() && t.chance(1, 6) {
            where_ = " where Self: Sized".into();
        }
    }
    let n = t.weighted(&[1, 4, 3, 2, 1, 1]);
    let mut items = vec![];
    let mut counter = 0usize;
    for i in 0..n {
        let kind = t.weighted(&[10, if cfg.assoc_types { 2 } else { 0 }, if cfg.other_items { 1 } else { 0 }]);
        match kind {
            0 => {
                let mut fresh = || {
                    counter += 1;
                    format!("p{counter}")
                };
                let receiver = if cfg.ref_self_only {
                    "&self".to_string()
                } else {
                    (*t.pick(&["&self", "&self", "&self", "&mut self", "self", "self: Box<Self>", "&'t self", "", "mut self", "self: &Self"])).to_string()
                };
                let np = t.weighted(&[3, 4, 2, 1, 1]);
                let mut params = vec![];
                for _ in 0..np {
                    let pat = if cfg.patterns { gen_pat(t, &mut fresh).src } else { fresh() };
                    let ty = gen_type(t, 1);
                    let attr = if cfg.method_attrs && t.chance(1, 10) { "#[mk_param] " } else { "" };
                    params.push(format!("{attr}{pat}: {ty}"));
                }
                let quals = if cfg.async_methods && t.chance(1, 4) {
                    "async ".to_string()
                } else if !cfg.ref_self_only && t.chance(1, 12) {
                    "unsafe ".to_string()
                } else {
                    String::new()
                };
                let ret = match t.weighted(&[3, 4, 1]) {
                    0 => String::new(),
                    1 => format!(" -> {}", gen_type(t, 1)),
                    _ => " -> &str".to_string(),
                };
                let mgen = if cfg.generics && t.chance(1, 6) { "<V: Clone>".to_string() } else { String::new() };
                let mwhere = if cfg.generics && t.chance(1, 10) { " where Self: Sized".to_string() } else { String::new() };
                // (a default body may begin with inner attributes)
                let body = if cfg.default_bodies && t.chance(1, 5) {
                    Some(match t.weighted(&[4, 1, 1]) {
                        0 => "{ unimplemented!() }".to_string(),
                        1 => "{ #![allow(unused_variables)] unimplemented!() }".to_string(),
                        _ => "{ //! inner doc of the body\n #![allow(unreachable_code)] unimplemented!() }".to_string(),
                    })
                } else {
                    None
                };
                items.push(TraitItemSrc::Method(TraitMethodSrc {
                    attrs: if cfg.method_attrs { gen_attrs(t, 2) } else { vec![] },
                    quals,
                    name: format!("m{i}"),
                    generics: mgen,
                    receiver,
                    params,
                    ret,
                    where_: mwhere,
                    body,
                }));
            }
            1 => {
                let x = match t.choose(3) {
                    0 => format!("type Assoc{i};"),
                    1 => format!("type Assoc{i}: Clone + Send;"),
                    _ => format!("/// doc\n type Assoc{i}<'q> where Self: 'q;"),
                };
                items.push(TraitItemSrc::AssocType(x));
            }
            _ => {
                let x = match t.choose(3) {
                    0 => format!("const K{i}: usize;"),
                    1 => format!("const K{i}: usize = 3;"),
                    _ => format!("mk_items!{{ fn inside{i}(&self); }}"),
                };
                items.push(TraitItemSrc::Other(x));
            }
        }
    }
    let inner_attrs = if cfg.trait_attrs && t.chance(1, 8) {
        match t.choose(3) {
            0 => vec!["//! inner doc".to_string()],
            1 => vec!["#![allow(missing_docs)]".to_string()],
            _ => vec!["#![doc = \"inner\"]".to_string(), "/*! block inner doc */".to_string(), "#![allow(dead_code)]".to_string()],
        }
    } else {
        vec![]
    };
    TraitSrc {
        attrs: if cfg.trait_attrs { gen_attrs(t, 3) } else { vec![] },
        vis: gen_vis(t),
        unsafety: cfg.unsafety && t.chance(1, 8),
        name: name.to_string(),
        generics,
        supertraits,
        where_,
        items,
        inner_attrs,
    }
}

/// Valid trait-mode attribute arguments.
pub fn gen_trait_attr(t: &mut Tape) -> String {
    let head = match t.weighted(&[5, 2, 2, 1, 1, 1, 1, 1]) {
        0 => vec![],
        1 => vec!["delegate_by = ref".to_string()],
        2 => vec!["TraitImpl".to_string(), "delegate_by = DelegateTrait".to_string()],
        3 => vec!["pub TraitImpl".to_string(), "delegate_by = ref".to_string()],
        4 => vec!["delegate_by = Borrow".to_string()],
        5 => vec!["delegate_by = Self".to_string()],
        // the deprecated spelling together with a delegation-target trait, and a bare `delegate_by`
        6 => vec!["TraitImpl".to_string(), "delegate_by = Borrow".to_string()],
        _ => vec!["delegate_by".to_string()],
    };
    let mut parts = head;
    let pool = ["?Send", "mock_api = TraitMock", "unimock", "unimock = false", "unimock = true", "mockall", "mockall = false"];
    let n = t.weighted(&[5, 3, 2, 1]);
    for _ in 0..n {
        parts.push((*t.pick(&pool)).to_string());
    }
    parts.join(", ")
}
