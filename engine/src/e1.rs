//! E1: the working-tree macro, run in-process (see port/build.rs).

use crate::tok::{self, Tok};
use proc_macro2::TokenStream;
use std::panic::{catch_unwind, AssertUnwindSafe};
use std::sync::Once;

pub const MACROS: [&str; 4] = ["entrait", "entrait_export", "entrait_unimock", "entrait_export_unimock"];

static HOOK: Once = Once::new();
thread_local! {
    static LAST_PANIC: std::cell::RefCell<String> = const { std::cell::RefCell::new(String::new()) };
    static QUIET: std::cell::Cell<bool> = const { std::cell::Cell::new(false) };
}

fn install_hook() {
    HOOK.call_once(|| {
        let prev = std::panic::take_hook();
        std::panic::set_hook(Box::new(move |info| {
            if QUIET.with(|q| q.get()) {
                let msg = if let Some(s) = info.payload().downcast_ref::<&str>() {
                    s.to_string()
                } else if let Some(s) = info.payload().downcast_ref::<String>() {
                    s.clone()
                } else {
                    "<non-string panic>".to_string()
                };
                let loc = info.location().map(|l| format!(" at {}:{}", l.file(), l.line())).unwrap_or_default();
                LAST_PANIC.with(|p| *p.borrow_mut() = format!("{msg}{loc}"));
            } else {
                prev(info);
            }
        }));
    });
}

#[derive(Debug, Clone)]
pub enum Expansion {
    /// tokens produced (may contain compile_error!)
    Tokens(TokenStream),
    /// the macro panicked
    Panic(String),
}

pub fn expand_ts(macro_name: &str, attr: TokenStream, item: TokenStream) -> Expansion {
    install_hook();
    QUIET.with(|q| q.set(true));
    let r = catch_unwind(AssertUnwindSafe(|| match macro_name {
        "entrait" => entrait_port::entrait(attr, item),
        "entrait_export" => entrait_port::entrait_export(attr, item),
        "entrait_unimock" => entrait_port::entrait_unimock(attr, item),
        "entrait_export_unimock" => entrait_port::entrait_export_unimock(attr, item),
        other => panic!("harness: unknown macro {other}"),
    }));
    QUIET.with(|q| q.set(false));
    match r {
        Ok(ts) => Expansion::Tokens(ts),
        Err(_) => Expansion::Panic(LAST_PANIC.with(|p| p.borrow().clone())),
    }
}

/// Expand from source text. `Err` = the *harness* produced something the lexer rejects.
pub fn expand_src(macro_name: &str, attr: &str, item: &str) -> Result<Expansion, String> {
    let a = tok::parse_src(attr).map_err(|e| format!("attr {e}: {attr}"))?;
    let i = tok::parse_src(item).map_err(|e| format!("item {e}: {item}"))?;
    Ok(expand_ts(macro_name, a, i))
}

/// Outcome classes used by most E1 oracles.
pub enum Outcome {
    Accepted(Vec<Tok>, TokenStream),
    Rejected(String),
    Panic(String),
}

/// like [outcome], for token streams that cannot be written as source text (groups with invisible delimiters)
pub fn outcome_ts(macro_name: &str, attr: TokenStream, item: TokenStream) -> Outcome {
    match expand_ts(macro_name, attr, item) {
        Expansion::Panic(m) => Outcome::Panic(m),
        Expansion::Tokens(ts) => {
            let t = tok::toks(ts.clone());
            match tok::find_compile_error(&t) {
                Some(msg) => Outcome::Rejected(msg),
                None => Outcome::Accepted(t, ts),
            }
        }
    }
}

pub fn outcome(macro_name: &str, attr: &str, item: &str) -> Result<Outcome, String> {
    Ok(match expand_src(macro_name, attr, item)? {
        Expansion::Panic(m) => Outcome::Panic(m),
        Expansion::Tokens(ts) => {
            let t = tok::toks(ts.clone());
            match tok::find_compile_error(&t) {
                Some(msg) => Outcome::Rejected(msg),
                None => Outcome::Accepted(t, ts),
            }
        }
    })
}

/// Expand the invocations the macro emitted itself (`#[::entrait::entrait(..)]` on the leaf trait of a concrete-dependency fn)
/// the way rustc would next: `::entrait::entrait` is the `_unimock` variant in a crate graph with the `unimock` feature.
/// Returns the token stream with every such trait replaced by its expansion, and how many nested invocations were expanded.
pub fn deep_expand(ts: TokenStream, feature_unimock: bool) -> Result<(TokenStream, usize), String> {
    use quote::ToTokens;
    let file: syn::File = syn::parse2(ts).map_err(|e| format!("expansion does not parse as items: {e}"))?;
    let variant = if feature_unimock { "entrait_unimock" } else { "entrait" };
    fn is_nested(a: &syn::Attribute) -> bool {
        let p = a.path();
        p.leading_colon.is_some() && p.segments.len() == 2 && p.segments[0].ident == "entrait" && p.segments[1].ident == "entrait"
    }
    fn rec(items: Vec<syn::Item>, variant: &str, n: &mut usize, depth: usize) -> Result<TokenStream, String> {
        let mut out = TokenStream::new();
        for it in items {
            match it {
                syn::Item::Trait(mut tr) if tr.attrs.iter().any(is_nested) && depth < 4 => {
                    let pos = tr.attrs.iter().position(is_nested).unwrap();
                    let attr = tr.attrs.remove(pos);
                    let args = match &attr.meta {
                        syn::Meta::List(l) => l.tokens.clone(),
                        _ => TokenStream::new(),
                    };
                    *n += 1;
                    match expand_ts(variant, args, tr.to_token_stream()) {
                        Expansion::Tokens(inner) => {
                            let f: syn::File = syn::parse2(inner).map_err(|e| format!("nested expansion does not parse as items: {e}"))?;
                            out.extend(rec(f.items, variant, n, depth + 1)?);
                        }
                        Expansion::Panic(m) => return Err(format!("nested expansion panicked: {m}")),
                    }
                }
                syn::Item::Mod(mut m) if m.content.is_some() => {
                    let (brace, inner) = m.content.take().unwrap();
                    let inner_ts = rec(inner, variant, n, depth)?;
                    let f: syn::File = syn::parse2(inner_ts).map_err(|e| format!("module body does not re-parse: {e}"))?;
                    m.content = Some((brace, f.items));
                    m.to_tokens(&mut out);
                }
                other => other.to_tokens(&mut out),
            }
        }
        Ok(out)
    }
    let mut n = 0;
    let out = rec(file.items, variant, &mut n, 0)?;
    Ok((out, n))
}
