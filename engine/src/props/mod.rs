//! One module per property. `run` = regression tier (committed replays) + generated search.

use crate::ev::Ctx;
use serde_json::Value;

pub mod c02;
pub mod c15;
pub mod c17;

pub fn run(ctx: &mut Ctx) {
    // regression tier: committed shrunk failures and golden inputs bypass the generators
    let replays = crate::ev::committed_replays(&ctx.property);
    let n = replays.len();
    for (_path, v) in replays {
        replay(ctx, &v);
    }
    ctx.extra.insert("replayed_regression_inputs".into(), serde_json::json!(n));
    match ctx.property.as_str() {
        "C02" => c02::run(ctx),
        "C15" => c15::run(ctx),
        "C17" => c17::run(ctx),
        other => crate::ev::inconclusive(&format!("no check registered for {other}")),
    }
}

pub fn replay(ctx: &mut Ctx, v: &Value) {
    match ctx.property.as_str() {
        "C02" => c02::replay(ctx, v),
        "C15" => c15::replay(ctx, v),
        "C17" => c17::replay(ctx, v),
        other => crate::ev::inconclusive(&format!("no replay for {other}")),
    }
}

pub fn s(v: &Value, key: &str) -> String {
    v.get(key).and_then(|x| x.as_str()).unwrap_or("").to_string()
}
