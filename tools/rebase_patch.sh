#!/bin/bash
# tools/rebase_patch.sh <patch.diff>: re-create a stored patch against the current /repo HEAD (3-way merge in a scratch worktree).
# Prints REBASED / CONFLICT. Never touches /repo's working tree.
P=$(readlink -f "$1")
WT=$(mktemp -d /tmp/rb-XXXXXX); rmdir $WT
git -C /repo worktree add -q --detach $WT HEAD || exit 2
cd $WT
if git apply --3way "$P" >/dev/null 2>&1 && ! git status --short | grep -q '^U\|^.U'; then
  git diff HEAD > "$P.new" && mv "$P.new" "$P"; echo "REBASED $1"
else
  echo "CONFLICT $1"
fi
cd /; git -C /repo worktree remove --force $WT; rm -rf $WT
