//! C08 — module mode: the trait's methods are exactly the module's non-private functions.
//!
//! Ground truth comes from the generator's spec (ordered names of direct-child fns with an explicit visibility and a body),
//! never from the macro's own analysis. E1 oracle: the trait of the requested name inside the emitted module has exactly
//! those methods, in order; after the module there is a `use` of that trait with the requested visibility.

use crate::drive::{run_tapes_par, Fail};
use crate::e1::{self, Outcome};
use crate::ev::Ctx;
use crate::gen::{self, FnGenCfg, ModItemKind};
use crate::tape::Tape;
use proc_macro2::{Delimiter, TokenStream, TokenTree};
use quote::ToTokens;
use serde_json::{json, Value};

pub struct Case {
    pub macro_name: String,
    pub attr: String,
    pub item: String,
    pub trait_name: String,
    pub trait_vis: String,
    pub expected: Vec<String>,
    pub nontrivial: bool,
}

impl Case {
    pub fn json(&self) -> Value {
        json!({"engine": "E1", "macro": self.macro_name, "attr": self.attr, "item": self.item,
               "trait_name": self.trait_name, "trait_vis": self.trait_vis, "expected_methods": self.expected})
    }
}

pub fn gen_case(t: &mut Tape) -> Case {
    let macro_name = e1::MACROS[t.weighted(&[5, 2, 2, 1])].to_string();
    let cfg = FnGenCfg { allow_concrete: false, allow_no_deps: false, allow_leading_unsafe: true, rich_syntax: true, soup_bodies: true };
    let n = t.range(0, 8);
    let mut items = vec![];
    let mut expected = vec![];
    let mut decoys = 0;
    for i in 0..n {
        let it = gen::gen_mod_item(t, i, &cfg);
        if let ModItemKind::VisibleFn(name) = &it.kind {
            expected.push(name.clone());
        }
        if it.decoy {
            decoys += 1;
        }
        items.push(it.src);
    }
    let trait_vis = gen::gen_vis(t);
    let trait_name = (*t.pick(&["Foo", "TheTrait", "Api"])).to_string();
    let mut attr = if trait_vis.is_empty() { trait_name.clone() } else { format!("{trait_vis} {trait_name}") };
    for _ in 0..t.weighted(&[5, 3, 1]) {
        attr.push_str(", ");
        attr.push_str(*t.pick(&["export", "?Send", "mock_api = FooMock", "unimock", "unimock = false", "mockall"]));
    }
    let mod_attrs = gen::gen_attrs(t, 2).join(" ");
    let mod_vis = gen::gen_vis(t);
    let item = format!("{mod_attrs} {mod_vis} mod the_mod {{\n{}\n}}", items.join("\n"));
    let nontrivial = !expected.is_empty() && decoys > 0;
    Case { macro_name, attr, item, trait_name, trait_vis, expected, nontrivial }
}

fn find_module_body(ts: &TokenStream) -> Option<(TokenStream, TokenStream)> {
    // returns (module body stream, tokens after the module item)
    let mut iter = ts.clone().into_iter();
    let mut seen_mod = false;
    while let Some(tt) = iter.next() {
        match &tt {
            TokenTree::Ident(i) if i == "mod" => seen_mod = true,
            TokenTree::Group(g) if seen_mod && g.delimiter() == Delimiter::Brace => {
                return Some((g.stream(), iter.collect()));
            }
            _ => {}
        }
    }
    None
}

/// the generated trait: `trait <name> ... { ... }` at the top level of the module body
fn find_trait(body: &TokenStream, name: &str) -> Option<syn::ItemTrait> {
    let tts: Vec<TokenTree> = body.clone().into_iter().collect();
    for i in 0..tts.len().saturating_sub(1) {
        if let (TokenTree::Ident(a), TokenTree::Ident(b)) = (&tts[i], &tts[i + 1]) {
            if a == "trait" && b == name {
                let mut s = TokenStream::new();
                for tt in &tts[i..] {
                    s.extend(std::iter::once(tt.clone()));
                    if let TokenTree::Group(g) = tt {
                        if g.delimiter() == Delimiter::Brace {
                            break;
                        }
                    }
                }
                if let Ok(t) = syn::parse2::<syn::ItemTrait>(s) {
                    return Some(t);
                }
            }
        }
    }
    None
}

pub fn check(c: &Case) -> Result<&'static str, String> {
    let out = match e1::outcome(&c.macro_name, &c.attr, &c.item).map_err(|e| format!("HARNESS: {e}"))? {
        Outcome::Accepted(_, ts) => ts,
        Outcome::Rejected(_) => return Ok("rejected"),
        Outcome::Panic(_) => return Ok("panic"),
    };
    let (body, after) = find_module_body(&out).ok_or("expansion contains no module with a brace body")?;
    let tr = find_trait(&body, &c.trait_name).ok_or_else(|| format!("no `trait {}` inside the emitted module", c.trait_name))?;
    let methods: Vec<String> = tr
        .items
        .iter()
        .filter_map(|it| if let syn::TraitItem::Fn(f) = it { Some(f.sig.ident.to_string()) } else { None })
        .collect();
    if methods != c.expected {
        return Err(format!(
            "trait `{}` has methods {:?} but the module's non-private fns with a body are {:?}",
            c.trait_name, methods, c.expected
        ));
    }
    // the re-export: `<vis> use ...::<Trait>;` (or `... as <Trait>`) with exactly the requested visibility
    let file: syn::File = syn::parse2(after.clone()).map_err(|e| format!("tokens after the module do not parse as items: {e}"))?;
    let want_vis = crate::tok::toks_of_src(&c.trait_vis).map_err(|e| format!("HARNESS: {e}"))?;
    let mut found = false;
    for item in &file.items {
        if let syn::Item::Use(u) = item {
            if use_imports(&u.tree, &c.trait_name) {
                let got_vis = crate::tok::toks(u.vis.to_token_stream());
                if got_vis != want_vis {
                    return Err(format!(
                        "trait `{}` is re-exported from the module with visibility `{}` but `{}` was requested",
                        c.trait_name,
                        crate::tok::render(&got_vis),
                        c.trait_vis
                    ));
                }
                found = true;
            }
        }
    }
    if !found {
        return Err(format!("trait `{}` is not imported into the module's parent scope (no `use` after the module)", c.trait_name));
    }
    Ok("accepted")
}

fn use_imports(tree: &syn::UseTree, name: &str) -> bool {
    match tree {
        syn::UseTree::Path(p) => use_imports(&p.tree, name),
        syn::UseTree::Name(n) => n.ident == name,
        syn::UseTree::Rename(r) => r.rename == name,
        syn::UseTree::Glob(_) => false,
        syn::UseTree::Group(g) => g.items.iter().any(|t| use_imports(t, name)),
    }
}

fn one(ctx: &mut Ctx, tape: &[u32]) -> Result<(), Fail> {
    let mut t = Tape::new(tape);
    let c = gen_case(&mut t);
    ctx.count_eval();
    match check(&c) {
        Ok(class) => {
            ctx.class(class);
            if class == "accepted" {
                ctx.class(&format!("visible_fns={}", c.expected.len().min(4)));
                if c.nontrivial {
                    ctx.nontrivial(&(&c.attr, &c.item));
                    ctx.sample(|| c.json());
                }
            }
            Ok(())
        }
        Err(e) if e.starts_with("HARNESS") => crate::ev::inconclusive(&e),
        Err(e) => Err(Fail::new(e, c.json())),
    }
}

pub fn run(ctx: &mut Ctx) {
    ctx.rule = "cases = entraited inline modules decoded from a proptest choice tape: 0..8 items mixing visible fns (every qualifier and visibility spelling), \
                private fns, body-less declarations and decoy items containing `fn` tokens (fn pointers, impls, nested mods, extern blocks, macro bodies, const blocks), \
                with a requested trait name/visibility; non-trivial = accepted by the macro, >=1 visible fn and >=1 private fn / body-less fn / decoy; \
                distinct = distinct (attr, module) text"
        .into();
    let cases = ctx.n(150_000, 3_000_000);
    run_tapes_par(ctx, 8, cases, 500, one);
}

pub fn replay(ctx: &mut Ctx, v: &Value) {
    use super::s;
    let expected = v.get("expected_methods").and_then(|a| a.as_array()).map(|a| a.iter().filter_map(|x| x.as_str().map(String::from)).collect()).unwrap_or_default();
    let c = Case { macro_name: s(v, "macro"), attr: s(v, "attr"), item: s(v, "item"), trait_name: s(v, "trait_name"), trait_vis: s(v, "trait_vis"), expected, nontrivial: true };
    ctx.count_eval();
    match check(&c) {
        Ok(_) => {}
        Err(e) if e.starts_with("HARNESS") => crate::ev::inconclusive(&e),
        Err(e) => ctx.violation(&e, v),
    }
}
