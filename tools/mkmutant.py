#!/usr/bin/env python3
"""mkmutant.py <out.diff> <file-in-repo> <old> <new> [<file2> <old2> <new2> ...]
Makes a patch against /repo HEAD by exact string replacement in a scratch worktree (removed afterwards)."""
import subprocess, sys, tempfile, os, shutil
out = os.path.abspath(sys.argv[1]); args = sys.argv[2:]
wt = tempfile.mkdtemp(prefix="mkmut-", dir="/tmp"); os.rmdir(wt)
subprocess.check_call(["git", "-C", "/repo", "worktree", "add", "-q", "--detach", wt, "HEAD"])
try:
    for i in range(0, len(args), 3):
        f, old, new = args[i:i+3]
        p = os.path.join(wt, f); s = open(p).read()
        if s.count(old) != 1:
            sys.exit(f"{f}: pattern occurs {s.count(old)} times: {old!r}")
        open(p, "w").write(s.replace(old, new))
    d = subprocess.check_output(["git", "-C", wt, "diff"])
    os.makedirs(os.path.dirname(out), exist_ok=True)
    open(out, "wb").write(d)
    print("wrote", out, len(d), "bytes")
finally:
    subprocess.call(["git", "-C", "/repo", "worktree", "remove", "--force", wt])
    shutil.rmtree(wt, ignore_errors=True)
