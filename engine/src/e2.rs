//! E2: generated client crates compiled by the real rustc against the repository (path dependency), with the recorder
//! hook on. One *case* = one module file; cases are spread over K member crates of one cargo workspace so that rustc
//! front-ends run in parallel; compile errors are attributed per file and the batch is rebuilt to a fix-point.

use crate::ev::{inconclusive, repo_root, verif_root};
use crate::tok::Record;
use serde_json::Value;
use std::collections::{BTreeMap, BTreeSet};
use std::path::{Path, PathBuf};
use std::process::Command;

pub const RT_SRC: &str = include_str!("client_rt.rs");

#[derive(Clone, Debug)]
pub struct Diag {
    pub level: String,
    pub code: String,
    pub message: String,
    pub file: String,
    pub line: u64,
    pub rendered: String,
    /// names of macros in the expansion backtrace of the primary span
    pub macros: Vec<String>,
}

#[derive(Clone, Debug, Default)]
pub struct Opts {
    /// `unimock` cargo feature of the entrait crate
    pub feature_unimock: bool,
    /// compile the member crates (only them) with `--cfg test`
    pub cfg_test: bool,
    /// only type-check (no codegen, nothing is run)
    pub check_only: bool,
    /// number of member crates
    pub members: usize,
    /// `#![no_std]` members (no rt module, nothing is run)
    pub no_std: bool,
    /// extra environment for cargo (history experiments of C20)
    pub env: Vec<(String, String)>,
    pub jobs: Option<usize>,
    /// source of a library crate `xlib` (depends on entrait) that every member depends on: the other-crate access site of C13
    pub xlib: Option<String>,
}

pub struct Batch {
    pub name: String,
    pub opts: Opts,
    /// case id -> module source
    pub cases: BTreeMap<String, String>,
    /// module declaration order inside each member (for C20 shuffles)
    pub order: Option<Vec<String>>,
}

#[derive(Debug, Default)]
pub struct Outcome {
    /// cases removed because of attributable compile errors (in any round)
    pub compile_failed: BTreeMap<String, Vec<Diag>>,
    /// CASE lines of the run: id -> (status, message)
    pub ran: BTreeMap<String, (String, String)>,
    pub records: Vec<Record>,
    pub rounds: usize,
    pub build_secs: f64,
}

fn work_dir() -> PathBuf {
    // runs against a scratch copy of the repository (VERIF_REPO) get their own directory, so they can run next to a normal check
    if repo_root() == Path::new("/repo") {
        verif_root().join("work").join("e2")
    } else {
        verif_root().join("work").join(format!("e2-{:x}", crate::ev::stable_hash(&repo_root())))
    }
}

pub fn e2_lock() -> std::fs::File {
    let dir = work_dir();
    let _ = std::fs::create_dir_all(&dir);
    // which repository copy this directory belongs to (tools/mutant.sh removes the directories of its own scratch copy only)
    let _ = std::fs::write(dir.join(".owner"), repo_root().display().to_string());
    let f = std::fs::OpenOptions::new().create(true).write(true).truncate(false).open(dir.join(".lock")).unwrap_or_else(|e| inconclusive(&format!("E2 lock file: {e}")));
    f.lock().unwrap_or_else(|e| inconclusive(&format!("E2 lock: {e}")));
    f
}

fn member_of(i: usize, k: usize) -> usize {
    i % k
}

impl Batch {
    pub fn new(name: &str, opts: Opts) -> Self {
        Self { name: name.to_string(), opts, cases: BTreeMap::new(), order: None }
    }

    pub fn add(&mut self, id: &str, src: String) {
        self.cases.insert(id.to_string(), src);
    }

    fn dir(&self) -> PathBuf {
        work_dir().join(&self.name)
    }

    fn target_dir(&self) -> PathBuf {
        let repo_tag = if repo_root() == Path::new("/repo") { String::new() } else { format!("-{:x}", crate::ev::stable_hash(&repo_root())) };
        work_dir().join(format!("target-{}{}", if self.opts.feature_unimock { "unimock" } else { "plain" }, repo_tag))
    }

    fn write_workspace(&self, live: &BTreeSet<String>) -> Result<(), String> {
        let dir = self.dir();
        let _ = std::fs::remove_dir_all(&dir);
        std::fs::create_dir_all(&dir).map_err(|e| e.to_string())?;
        let k = self.opts.members.max(1);
        let members: Vec<String> = (0..k).map(|i| format!("m{i}")).collect();
        let repo = repo_root();
        std::fs::write(
            dir.join("Cargo.toml"),
            format!(
                "[workspace]\nresolver = \"2\"\nmembers = [{}]\n\n[profile.dev]\ndebug = 0\nopt-level = 0\nincremental = false\n",
                members.iter().map(|m| format!("\"{m}\"")).chain(self.opts.xlib.iter().map(|_| "\"xlib\"".to_string())).collect::<Vec<_>>().join(", ")
            ),
        )
        .map_err(|e| e.to_string())?;
        // a scratch worktree has no Cargo.lock (it is untracked in the repository): fall back to /repo's, then to the engine's own
        let lock = [repo.join("Cargo.lock"), PathBuf::from("/repo/Cargo.lock"), verif_root().join("engine/Cargo.lock")].into_iter().find(|p| p.exists()).ok_or("no Cargo.lock to seed the client workspace")?;
        std::fs::copy(lock, dir.join("Cargo.lock")).map_err(|e| format!("copy Cargo.lock: {e}"))?;
        std::fs::create_dir_all(dir.join(".cargo")).map_err(|e| e.to_string())?;
        std::fs::write(dir.join(".cargo/config.toml"), "[net]\noffline = true\n").map_err(|e| e.to_string())?;
        let ids: Vec<String> = match &self.order {
            Some(o) => o.clone(),
            None => self.cases.keys().cloned().collect(),
        };
        if let Some(xsrc) = &self.opts.xlib {
            let xdir = dir.join("xlib");
            std::fs::create_dir_all(xdir.join("src")).map_err(|e| e.to_string())?;
            let features = if self.opts.feature_unimock { ", features = [\"unimock\"]" } else { "" };
            std::fs::write(xdir.join("Cargo.toml"), format!("[package]\nname = \"xlib\"\nversion = \"0.0.0\"\nedition = \"2021\"\n\n[dependencies]\nentrait = {{ path = \"{}\"{features} }}\n", repo.display())).map_err(|e| e.to_string())?;
            std::fs::write(xdir.join("src/lib.rs"), xsrc).map_err(|e| e.to_string())?;
        }
        let xlib_dep = if self.opts.xlib.is_some() { "xlib = { path = \"../xlib\" }\n" } else { "" };
        for (mi, m) in members.iter().enumerate() {
            let mdir = dir.join(m);
            std::fs::create_dir_all(mdir.join("src")).map_err(|e| e.to_string())?;
            let features = if self.opts.feature_unimock { ", features = [\"unimock\"]" } else { "" };
            let unimock_dep = if self.opts.feature_unimock { "unimock = \"0.6\"\n" } else { "" };
            std::fs::write(
                mdir.join("Cargo.toml"),
                format!(
                    "[package]\nname = \"{m}\"\nversion = \"0.0.0\"\nedition = \"2021\"\n\n[dependencies]\nentrait = {{ path = \"{}\"{features} }}\n{unimock_dep}{xlib_dep}mockall = \"0.12\"\nasync-trait = \"0.1\"\n",
                    repo.display()
                ),
            )
            .map_err(|e| e.to_string())?;
            let mut main = String::new();
            if self.opts.no_std {
                main.push_str("#![no_std]\n#![allow(warnings)]\n");
            } else {
                main.push_str("#![allow(warnings)]\nmod rt;\n");
                std::fs::write(mdir.join("src/rt.rs"), RT_SRC).map_err(|e| e.to_string())?;
            }
            let mut mine = vec![];
            for (i, id) in ids.iter().enumerate() {
                if member_of(i, k) != mi {
                    continue;
                }
                main.push_str(&format!("mod {id};\n"));
                let src = if live.contains(id) {
                    self.cases[id].clone()
                } else {
                    if self.opts.no_std {
                        // (check-only crates without `std`: nothing runs, nothing may name `Vec`)
                        "pub fn run() {}\n".to_string()
                    } else {
                        "pub fn run() -> Vec<String> { vec![\"__REMOVED__\".to_string()] }\n".to_string()
                    }
                };
                std::fs::write(mdir.join("src").join(format!("{id}.rs")), src).map_err(|e| e.to_string())?;
                if live.contains(id) {
                    mine.push(id.clone());
                }
            }
            if self.opts.no_std {
                // a library target: no panic handler / entry point needed, `cargo check` is the verdict
            } else if self.opts.check_only {
                main.push_str("fn main() {}\n");
            } else {
                main.push_str("fn main() {\n    rt::run_cases(&[\n");
                for id in &mine {
                    main.push_str(&format!("        (\"{id}\", {id}::run),\n"));
                }
                main.push_str("    ]);\n}\n");
            }
            std::fs::write(mdir.join(if self.opts.no_std { "src/lib.rs" } else { "src/main.rs" }), main).map_err(|e| e.to_string())?;
        }
        Ok(())
    }

    fn cargo(&self) -> (Vec<Diag>, bool, String) {
        let dir = self.dir();
        let dump_dir = dir.join("dump");
        let _ = std::fs::remove_dir_all(&dump_dir);
        let _ = std::fs::create_dir_all(&dump_dir);
        let mut cmd = Command::new("cargo");
        if self.opts.cfg_test {
            // `cargo rustc` accepts extra flags only for a single package: members are built one by one
            unreachable!("cfg_test batches are built through cargo_cfg_test");
        }
        cmd.arg(if self.opts.check_only { "check" } else { "build" }).arg("--offline").arg("--workspace").arg("--message-format=json");
        if let Some(j) = self.opts.jobs {
            cmd.arg(format!("-j{j}"));
        }
        self.common_env(&mut cmd);
        let out = cmd.output().unwrap_or_else(|e| inconclusive(&format!("cannot run cargo: {e}")));
        let stdout = String::from_utf8_lossy(&out.stdout).to_string();
        let stderr = String::from_utf8_lossy(&out.stderr).to_string();
        (parse_diags(&stdout), out.status.success(), stderr)
    }

    fn common_env(&self, cmd: &mut Command) {
        let dir = self.dir();
        cmd.current_dir(&dir)
            .env("CARGO_TARGET_DIR", self.target_dir())
            .env("CARGO_NET_OFFLINE", "true")
            .env("RUSTFLAGS", "--cfg audunhalland_entrait_verif")
            .env("ENTRAIT_VERIF_DUMP", dir.join("dump").join("rec"))
            .env_remove("RUSTC_WRAPPER");
        for (k, v) in &self.opts.env {
            cmd.env(k, v);
        }
    }

    /// members are compiled with `--cfg test` (dependencies are not): `cargo rustc -p mI -- --cfg test`
    fn cargo_cfg_test(&self) -> (Vec<Diag>, bool, String) {
        let dir = self.dir();
        let dump_dir = dir.join("dump");
        let _ = std::fs::remove_dir_all(&dump_dir);
        let _ = std::fs::create_dir_all(&dump_dir);
        let mut all = vec![];
        let mut ok = true;
        let mut errs = String::new();
        for i in 0..self.opts.members.max(1) {
            let mut cmd = Command::new("cargo");
            cmd.arg("rustc").arg("--offline").arg("-p").arg(format!("m{i}")).arg("--message-format=json");
            if self.opts.check_only {
                cmd.arg("--profile=check");
            }
            cmd.arg("--").arg("--cfg").arg("test");
            self.common_env(&mut cmd);
            let out = cmd.output().unwrap_or_else(|e| inconclusive(&format!("cannot run cargo: {e}")));
            all.extend(parse_diags(&String::from_utf8_lossy(&out.stdout)));
            ok &= out.status.success();
            errs.push_str(&String::from_utf8_lossy(&out.stderr));
        }
        (all, ok, errs)
    }

    /// Build to a fix-point (cases with attributable errors are stubbed out and the rest rebuilt), then run.
    pub fn build_and_run(&self) -> Outcome {
        // the client target directory (and the member binaries in it) is shared by all batches of one repository copy:
        // checks started next to each other take turns for their E2 phases instead of overwriting each other's binaries
        let _guard = e2_lock();
        let start = std::time::Instant::now();
        let mut out = Outcome::default();
        let mut live: BTreeSet<String> = self.cases.keys().cloned().collect();
        loop {
            out.rounds += 1;
            if out.rounds > 12 {
                inconclusive(&format!("E2 batch {}: no compile fix-point after 12 rounds", self.name));
            }
            self.write_workspace(&live).unwrap_or_else(|e| inconclusive(&format!("E2 write workspace: {e}")));
            let (diags, ok, stderr) = if self.opts.cfg_test { self.cargo_cfg_test() } else { self.cargo() };
            out.records.extend(crate::tok::read_dumps(&self.dir().join("dump").join("rec")).unwrap_or_else(|e| inconclusive(&format!("E2 dump: {e}"))));
            let errors: Vec<&Diag> = diags.iter().filter(|d| d.level.starts_with("error")).collect();
            if ok && errors.is_empty() {
                break;
            }
            let mut progressed = false;
            let mut unattributed = vec![];
            for d in errors {
                if d.message.starts_with("aborting due to") || d.message.starts_with("could not compile") {
                    continue;
                }
                let stem = Path::new(&d.file).file_stem().map(|s| s.to_string_lossy().to_string()).unwrap_or_default();
                if self.cases.contains_key(&stem) {
                    if live.remove(&stem) {
                        progressed = true;
                    }
                    out.compile_failed.entry(stem).or_default().push(d.clone());
                } else {
                    unattributed.push(d.clone());
                }
            }
            if !progressed {
                let first = unattributed.first().map(|d| d.rendered.clone()).unwrap_or_else(|| stderr.lines().rev().take(30).collect::<Vec<_>>().into_iter().rev().collect::<Vec<_>>().join("\n"));
                inconclusive(&format!("E2 batch {}: build failed without an error attributable to a case file:\n{first}", self.name));
            }
        }
        out.build_secs = start.elapsed().as_secs_f64();
        if self.opts.check_only || self.opts.no_std {
            return out;
        }
        for i in 0..self.opts.members.max(1) {
            let exe = self.target_dir().join("debug").join(format!("m{i}"));
            // a case that aborts the process (stack overflow, abort) is recorded as "crash" and the member is restarted behind it
            let mut start_at = 0usize;
            for _attempt in 0..64 {
                let run = Command::new(&exe).env("VERIF_START_AT", start_at.to_string()).output().unwrap_or_else(|e| inconclusive(&format!("cannot run {}: {e}", exe.display())));
                let text = String::from_utf8_lossy(&run.stdout);
                let mut last_started: Option<(String, usize)> = None;
                for line in text.lines() {
                    let mut it = line.splitn(4, '\t');
                    match it.next() {
                        Some("START") => {
                            if let (Some(id), Some(idx)) = (it.next(), it.next().and_then(|x| x.parse::<usize>().ok())) {
                                last_started = Some((id.to_string(), idx));
                            }
                        }
                        Some("CASE") => {
                            let (Some(id), Some(status)) = (it.next(), it.next()) else { continue };
                            out.ran.insert(id.to_string(), (status.to_string(), it.next().unwrap_or("").to_string()));
                            last_started = None;
                        }
                        _ => {}
                    }
                }
                if run.status.success() {
                    break;
                }
                match last_started {
                    Some((id, idx)) => {
                        let why = String::from_utf8_lossy(&run.stderr).lines().filter(|l| !l.trim().is_empty()).take(3).collect::<Vec<_>>().join(" / ");
                        out.ran.insert(id, ("crash".to_string(), format!("the process was aborted while this case ran ({:?}): {why}", run.status.code())));
                        start_at = idx + 1;
                    }
                    None => inconclusive(&format!(
                        "E2 batch {}: member m{i} exited with {:?} outside any case: {}",
                        self.name,
                        run.status.code(),
                        String::from_utf8_lossy(&run.stderr).lines().take(5).collect::<Vec<_>>().join(" / ")
                    )),
                }
            }
        }
        for id in &live {
            if !out.ran.contains_key(id) {
                inconclusive(&format!("E2 batch {}: case {id} compiled but produced no result line", self.name));
            }
        }
        out
    }

    pub fn cleanup(&self) {
        let _ = std::fs::remove_dir_all(self.dir());
    }
}

pub fn parse_diags(stdout: &str) -> Vec<Diag> {
    let mut out = vec![];
    for line in stdout.lines() {
        if !line.starts_with('{') {
            continue;
        }
        let Ok(v) = serde_json::from_str::<Value>(line) else { continue };
        if v.get("reason").and_then(|r| r.as_str()) != Some("compiler-message") {
            continue;
        }
        let Some(m) = v.get("message") else { continue };
        let level = m.get("level").and_then(|x| x.as_str()).unwrap_or("").to_string();
        if !(level.starts_with("error")) {
            continue;
        }
        let spans = m.get("spans").and_then(|s| s.as_array()).cloned().unwrap_or_default();
        let primary = spans.iter().find(|s| s.get("is_primary").and_then(|p| p.as_bool()).unwrap_or(false)).or(spans.first());
        let (mut file, mut line_no) = (String::new(), 0);
        let mut macros = vec![];
        if let Some(p) = primary {
            // walk to the outermost expansion site: that is the file of the case that invoked the macro
            let mut cur = p.clone();
            loop {
                file = cur.get("file_name").and_then(|f| f.as_str()).unwrap_or("").to_string();
                line_no = cur.get("line_start").and_then(|l| l.as_u64()).unwrap_or(0);
                match cur.get("expansion") {
                    Some(e) if !e.is_null() => {
                        if let Some(name) = e.get("macro_decl_name").and_then(|n| n.as_str()) {
                            macros.push(name.to_string());
                        }
                        match e.get("span") {
                            Some(s) if !s.is_null() => cur = s.clone(),
                            _ => break,
                        }
                    }
                    _ => break,
                }
            }
        }
        out.push(Diag {
            level,
            code: m.get("code").and_then(|c| c.get("code")).and_then(|c| c.as_str()).unwrap_or("").to_string(),
            message: m.get("message").and_then(|x| x.as_str()).unwrap_or("").to_string(),
            file,
            line: line_no,
            rendered: m.get("rendered").and_then(|x| x.as_str()).unwrap_or("").to_string(),
            macros,
        });
    }
    out
}

/// Pre-build the dependency sets (used by setup.sh so that the first quick check is not dominated by compiling syn/unimock).
pub fn warm() {
    for feature_unimock in [false, true] {
        let mut b = Batch::new(if feature_unimock { "warm-unimock" } else { "warm-plain" }, Opts { feature_unimock, members: 1, ..Default::default() });
        b.add("w0", "#[::entrait::entrait(pub Foo)]\nfn foo(_deps: &impl Sized) -> i32 { 1 }\npub fn run() -> Vec<String> { vec![] }\n".to_string());
        let o = b.build_and_run();
        println!("warmed {} in {:.1}s ({} records)", b.name, o.build_secs, o.records.len());
        b.cleanup();
    }
}
