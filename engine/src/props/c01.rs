//! C01 — calling a generated trait method is calling the original function (E2, differential + trace).
//!
//! Every generated body pushes `(fn tag | deps identity | args | deps-bound sum)` to a thread-local trace and returns the same
//! string. The client calls the fn directly (reference semantics) and through the generated trait on the same receiver with
//! the same (pairwise distinct) argument values; results and traces must be equal, the trace exactly one entry long, and
//! `&mut` arguments must end up equal.

use crate::e2::{Batch, Opts};
use crate::ev::Ctx;
use crate::prog::{self, Deps, FnSpec, PK, VT};
use crate::tape::Tape;
use serde_json::{json, Value};

#[derive(Clone, Debug)]
pub struct Case {
    pub src: String,
    pub nontrivial: bool,
    pub classes: Vec<&'static str>,
    pub summary: String,
}

fn gen_fn_spec(t: &mut Tape, name: &str, tag: &str, deps_pool: &[Deps], mock_active: bool, allow_gen: bool) -> FnSpec {
    let deps = *t.pick(deps_pool);
    let is_async = t.chance(1, 3);
    let nb = if matches!(deps, Deps::NoDeps | Deps::Concrete) { 0 } else { t.weighted(&[3, 3, 2, 1]) };
    let mut bounds: Vec<usize> = vec![];
    for _ in 0..nb {
        let b = t.choose(5);
        if !bounds.contains(&b) {
            bounds.push(b);
        }
    }
    let bounds_in_where = t.choose(bounds.len() + 1);
    let mut params = prog::gen_params(t, 6, !mock_active, mock_active);
    if !mock_active && !params.is_empty() && t.chance(1, 10) {
        // one parameter named like the fn itself
        let i = t.choose(params.len());
        if params[i].vt != VT::MutVec {
            params[i].pk = PK::FnNamed;
        }
    }
    if !allow_gen {
        for p in params.iter_mut() {
            if p.vt == VT::Gen {
                p.vt = VT::I32;
            }
        }
    }
    let has_gen = params.iter().any(|p| p.vt == VT::Gen);
    // a result borrowed from the only reference-typed argument (fns without a dependency reference: the elided lifetime of
    // the output is that argument's, and must still be after a `&self` receiver has been added)
    let refs: Vec<usize> = params.iter().enumerate().filter(|(_, p)| matches!(p.vt, VT::Str | VT::MutVec | VT::RefI32)).map(|(i, _)| i).collect();
    let ret_borrow = match (deps, refs.as_slice()) {
        (Deps::NoDeps | Deps::ValGeneric | Deps::ValImpl, [i]) if !mock_active && params[*i].vt == VT::Str && params[*i].pk == PK::Plain && t.chance(1, 2) => Some(*i),
        _ => None,
    };
    FnSpec { name: name.to_string(), tag: tag.to_string(), vis: String::new(), is_async, deps, bounds, bounds_in_where, params, has_gen, ret_unit: !mock_active && t.chance(1, 6), hold_rc: false, ret_borrow }
}

fn call_pair(f: &FnSpec, path_prefix: &str, idx: usize, ufcs: Option<&str>) -> String {
    // emits code that performs the direct and the trait call of `f` and compares
    let args = f.call_args();
    let comma = if args.is_empty() { "" } else { ", " };
    let wrap = |e: String| if f.is_async { format!("rt::block_on({e})") } else { e };
    let (direct, mut via) = match f.deps {
        Deps::RefGeneric | Deps::RefImpl => (format!("{path_prefix}{}(&app{comma}{args})", f.name), format!("app.{}({args})", f.name)),
        Deps::ValGeneric | Deps::ValImpl => (format!("{path_prefix}{}(mk_app(7){comma}{args})", f.name), format!("mk_app(7).{}({args})", f.name)),
        Deps::NoDeps => (format!("{path_prefix}{}({args})", f.name), format!("app.{}({args})", f.name)),
        Deps::Concrete => (format!("{path_prefix}{}(&conf{comma}{args})", f.name), format!("conf.{}({args})", f.name)),
    };
    // Fully qualified calls: method-call syntax on `Impl<T>` could fall through `Deref` to an impl for `T` itself and hide a
    // missing impl for `Impl<T>`. (The trait of a module with a generic fn is generic itself: `ufcs` names the instantiation.)
    {
        let trait_path = ufcs.unwrap_or(if f.has_gen { "TheTrait<_>" } else { "TheTrait" });
        via = match f.deps {
            Deps::Concrete => format!("<Conf as {trait_path}>::{}(&conf{comma}{args})", f.name),
            _ => {
                // (a `no_deps` fn's borrowed result is the argument's: the application it was called on may be gone by then)
                let recv = if f.deps.by_value() {
                    "mk_app(7)"
                } else if f.deps == Deps::NoDeps && f.ret_borrow.is_some() {
                    "&mk_app(7)"
                } else {
                    "&app"
                };
                format!("<::entrait::Impl<App> as {trait_path}>::{}({recv}{comma}{args})", f.name)
            }
        };
    }
    let mut s = String::new();
    s.push_str("    {\n");
    s.push_str(&format!("        let _ = rt::take();\n        {}", f.vec_decls().replace('\n', "\n        ")));
    s.push_str(&format!("let direct = {};\n        let t_direct = rt::take();\n", wrap(direct)));
    for v in f.vec_names() {
        s.push_str(&format!("        let d_{v} = {v}.clone();\n"));
    }
    s.push_str(&format!("        {}", f.vec_decls().replace('\n', "\n        ")));
    s.push_str(&format!("\n/*GEN*/ let via = {};\n        let t_via = rt::take();\n", wrap(via)));
    s.push_str(&format!("        if t_direct.len() != 1 {{ fails.push(format!(\"HARNESS: direct call of {} traced {{}} entries\", t_direct.len())); }}\n", f.name));
    s.push_str(&format!("/*GEN*/ rt::expect_eq(&mut fails, \"fn#{idx} {}: result of the trait call vs the direct call\", &via, &direct);\n", f.name));
    s.push_str(&format!("/*GEN*/ rt::expect_eq(&mut fails, \"fn#{idx} {}: call trace of the trait call vs the direct call\", &t_via, &t_direct);\n", f.name));
    for v in f.vec_names() {
        s.push_str(&format!("/*GEN*/ rt::expect_eq(&mut fails, \"fn#{idx} {}: &mut argument {v} after the call\", &{v}, &d_{v});\n", f.name));
    }
    if f.deps == Deps::Concrete {
        // also through Impl<Conf>: the receiver must be the inner Conf
        s.push_str(&format!("        {}", f.vec_decls().replace('\n', "\n        ")));
        let d2 = wrap(format!("{path_prefix}{}(&*iconf{comma}{args})", f.name));
        s.push_str(&format!("let direct2 = {d2};\n        let t_direct2 = rt::take();\n"));
        s.push_str(&format!("        {}", f.vec_decls().replace('\n', "\n        ")));
        let v2 = wrap(format!("<::entrait::Impl<Conf> as {}>::{}(&iconf{comma}{args})", if f.has_gen { "TheTrait<_>" } else { "TheTrait" }, f.name));
        s.push_str(&format!("\n/*GEN*/ let via2 = {v2};\n        let t_via2 = rt::take();\n"));
        s.push_str(&format!("/*GEN*/ rt::expect_eq(&mut fails, \"fn#{idx} {}: result through Impl<Conf>\", &via2, &direct2);\n", f.name));
        s.push_str(&format!("/*GEN*/ rt::expect_eq(&mut fails, \"fn#{idx} {}: trace through Impl<Conf>\", &t_via2, &t_direct2);\n", f.name));
    }
    s.push_str("    }\n");
    s
}

pub fn gen_case(t: &mut Tape, feature_unimock: bool) -> Case {
    let module = t.chance(2, 5);
    // options
    let macro_path = if t.chance(1, 4) { "::entrait::entrait_export" } else { "::entrait::entrait" };
    let export_opt = t.chance(1, 4);
    let export = export_opt || macro_path.ends_with("export");
    let mock_api = t.chance(1, 3);
    let unimock_opt: Option<bool> = match t.weighted(&[4, 1, 1]) {
        0 => None,
        1 => Some(false),
        _ => Some(true),
    };
    let mockall = t.chance(1, 6);
    let unimock_on = unimock_opt.unwrap_or(feature_unimock);
    // the unimock attribute can only be *active* (exported) when the crate feature provides `::entrait::__unimock`
    let unimock_opt = if unimock_opt == Some(true) && !feature_unimock && export && mock_api { None } else { unimock_opt };
    let unimock_on = if unimock_opt.is_none() { feature_unimock } else { unimock_on };
    let unimock_active = unimock_on && mock_api && export;
    let mockall_active = mockall && export;
    let mock_active = unimock_active || mockall_active;
    let no_send = t.chance(1, 6);
    let no_deps = t.chance(1, 7);
    let trait_vis = *t.pick(&["", "pub", "pub(crate)"]);
    let mut opts: Vec<String> = vec![];
    if no_deps {
        opts.push("no_deps".into());
    }
    if export_opt {
        opts.push(if t.flip() { "export".into() } else { "export = true".into() });
    }
    if mock_api {
        opts.push("mock_api = TheMock".into());
    }
    if let Some(u) = unimock_opt {
        opts.push(format!("unimock = {u}"));
    }
    if mockall {
        opts.push("mockall".into());
    }
    if no_send {
        opts.push("?Send".into());
    }
    let perm = t.permutation(opts.len());
    let opts: Vec<String> = perm.into_iter().map(|i| opts[i].clone()).collect();
    let trait_name = "TheTrait";
    let mut attr = if trait_vis.is_empty() { trait_name.to_string() } else { format!("{trait_vis} {trait_name}") };
    for o in &opts {
        attr.push_str(", ");
        attr.push_str(o);
    }
    let mut classes: Vec<&'static str> = vec![];
    let mut src = prog::prelude(3, feature_unimock);
    src.push_str("impl Default for App { fn default() -> Self { App { id: 0 } } }\n");
    let mut body = String::from("pub fn run() -> Vec<String> {\n    let mut fails: Vec<String> = vec![];\n    let app = mk_app(7);\n    let conf = Conf { id: 9 };\n    let iconf = ::entrait::Impl::new(Conf { id: 10 });\n");
    let mut nontrivial = false;
    let mut summary;
    if module {
        let deps_pool: Vec<Deps> = if no_deps { vec![Deps::NoDeps] } else if mock_active { vec![Deps::RefGeneric, Deps::RefImpl] } else { vec![Deps::RefGeneric, Deps::RefImpl, Deps::RefImpl, Deps::ValGeneric, Deps::ValImpl] };
        let n = t.range(1, 5);
        let names = prog::member_names(t, n);
        let mut fns: Vec<FnSpec> = vec![];
        let mut gen_used = false;
        // deliberately repeated signatures: sometimes clone the previous fn's shape
        for i in 0..n {
            let mut f = if i > 0 && t.chance(1, 2) {
                let mut c = fns[i - 1].clone();
                c.name = names[i].clone();
                c.tag = format!("F{i}");
                c
            } else {
                gen_fn_spec(t, &names[i], &format!("F{i}"), &deps_pool, mock_active, !gen_used && !mock_active)
            };
            if f.has_gen {
                if gen_used {
                    for p in f.params.iter_mut() {
                        if p.vt == VT::Gen {
                            p.vt = VT::I32;
                        }
                    }
                    f.has_gen = false;
                }
                gen_used = true;
            }
            f.vis = (*t.pick(&["pub", "pub", "pub(crate)", "pub(super)"])).to_string();
            if mockall_active_any(mock_active, mockall) {
                f.is_async = false;
            }
            f.hold_rc = no_send && f.is_async;
            fns.push(f);
        }
        let same_sig = fns.windows(2).any(|w| w[0].signature().replace(&w[0].name, "") == w[1].signature().replace(&w[1].name, ""));
        if same_sig {
            classes.push("module_same_signature_fns");
            nontrivial = true;
        }
        src.push_str(&format!("/*GEN*/ #[{macro_path}({attr})]\npub mod m {{\n    use super::*;\n"));
        for f in &fns {
            src.push_str(&format!("    {}\n", f.render("").replace('\n', "\n    ")));
            if t.chance(1, 4) {
                src.push_str(&format!("    fn private_helper_{}() {{}}\n    pub struct Other{};\n", f.name, f.name));
            }
        }
        src.push_str("}\n");
        for (i, f) in fns.iter().enumerate() {
            let ufcs = if gen_used { Some("TheTrait<i64>") } else { None };
            body.push_str(&call_pair(f, "m::", i, ufcs));
            nontrivial |= fn_nontrivial(f, &mut classes);
        }
        summary = format!("mod[{}] #[{}({attr})]", fns.iter().map(|f| f.signature()).collect::<Vec<_>>().join("; "), macro_path);
    } else {
        let deps_pool: Vec<Deps> = if no_deps {
            vec![Deps::NoDeps]
        } else if mock_active {
            vec![Deps::RefGeneric, Deps::RefImpl]
        } else {
            vec![Deps::RefGeneric, Deps::RefImpl, Deps::RefImpl, Deps::ValGeneric, Deps::ValImpl, Deps::Concrete]
        };
        let mut f = gen_fn_spec(t, "the_fn", "F", &deps_pool, mock_active, !mock_active);
        f.vis = (*t.pick(&["", "pub", "pub(crate)"])).to_string();
        if mockall_active_any(mock_active, mockall) {
            f.is_async = false;
        }
        f.hold_rc = no_send && f.is_async;
        // the fn may come out of a `macro_rules!` expansion in which one parameter name is written in the macro and another,
        // spelled the same, is passed in from the call site: two different identifiers (hygiene) that only spans tell apart
        let plain: Vec<usize> = f.params.iter().enumerate().filter(|(_, p)| p.pk == PK::Plain).map(|(i, _)| i).collect();
        let hygiene = plain.len() >= 2 && t.chance(1, 6);
        if hygiene {
            let (i, j) = (plain[0], plain[plain.len() - 1]);
            let passed = f.params[i].name.clone();
            f.params[j].name = "$p".to_string();
            src.push_str(&format!("macro_rules! __mk_the_fn {{ ($p:ident) => {{\n/*GEN*/ #[{macro_path}({attr})]\n{}\n}} }}\n__mk_the_fn!({passed});\n", f.render("")));
            classes.push("fn_from_macro_rules_with_same_spelled_parameters");
            nontrivial = true;
        } else {
            src.push_str(&format!("/*GEN*/ #[{macro_path}({attr})]\n{}\n", f.render("")));
        }
        body.push_str(&call_pair(&f, "", 0, None));
        nontrivial |= fn_nontrivial(&f, &mut classes);
        summary = format!("#[{macro_path}({attr})] {}", f.signature());
    }
    if mock_active {
        classes.push("mock_macro_active");
    }
    summary.push_str(if feature_unimock { " [feature unimock]" } else { " [no features]" });
    body.push_str("    fails\n}\n");
    src.push_str(&body);
    Case { src, nontrivial, classes, summary }
}

fn mockall_active_any(mock_active: bool, mockall: bool) -> bool {
    mock_active && mockall
}

fn fn_nontrivial(f: &FnSpec, classes: &mut Vec<&'static str>) -> bool {
    let mut nt = false;
    if f.params.windows(2).any(|w| w[0].vt == w[1].vt) {
        classes.push("adjacent_same_typed_params");
        nt = true;
    }
    if f.is_async {
        classes.push("async");
        nt = true;
    }
    if f.hold_rc {
        classes.push("maybe_send_with_not_send_future");
    }
    if f.deps.by_value() {
        classes.push("by_value_deps");
        nt = true;
    }
    if f.params.iter().any(|p| p.pk != PK::Plain) {
        classes.push("non_plain_pattern");
        nt = true;
    }
    match f.deps {
        Deps::NoDeps => classes.push("no_deps"),
        Deps::Concrete => classes.push("concrete_deps"),
        _ => {}
    }
    if f.has_gen {
        classes.push("generic_param");
    }
    if f.ret_borrow.is_some() {
        classes.push(if f.is_async { "result_borrowed_from_the_only_reference_argument_async" } else { "result_borrowed_from_the_only_reference_argument" });
    }
    nt
}

pub const TAPE_LEN: usize = 160;

pub fn run(ctx: &mut Ctx) {
    ctx.rule = "cases = compiled client programs decoded from proptest choice tapes: an entraited fn or module of 1..5 fns (arity 0..6 biased to adjacent equal \
                types, destructured / wildcard / mut / ref / fn-named parameters, generic parameter, sync/async, deps by reference or by value, named generic or impl Trait, \
                no_deps, concrete deps; 0..3 used dependency bounds split between inline and where) x an option set x both cargo feature settings; each program calls every fn \
                directly and through the generated trait with pairwise-distinct argument values and compares results, call traces and &mut arguments; non-trivial = >=2 adjacent \
                same-typed params, module with >=2 same-signature fns, async, by-value deps or a non-plain pattern; distinct = distinct program text"
        .into();
    ctx.assumptions.push("programs that do not compile are C03's business: dropped here and counted; the run is inconclusive if more than 5% drop".into());
    let n = ctx.n(1000, 10_000) as usize;
    let mut total_dropped = 0usize;
    let mut total = 0usize;
    for feature_unimock in [false, true] {
        let tapes = crate::drive::gen_tapes(ctx.seed, 100 + feature_unimock as u64, n, TAPE_LEN);
        let mut batch = Batch::new(&format!("c01-{}", if feature_unimock { "unimock" } else { "plain" }), Opts { feature_unimock, members: 16, ..Default::default() });
        let mut cases = std::collections::BTreeMap::new();
        for (i, tp) in tapes.iter().enumerate() {
            let c = gen_case(&mut Tape::new(tp), feature_unimock);
            let id = format!("c{i:05}");
            batch.add(&id, c.src.clone());
            cases.insert(id, (c, tp.clone()));
        }
        let out = batch.build_and_run();
        super::common::crosscheck_records(ctx, &out.records);
        total += cases.len();
        for (id, diags) in &out.compile_failed {
            ctx.class("dropped_compile_error");
            if std::env::var("VERIF_DEBUG").is_ok() {
                use std::io::Write;
                let mut f = std::fs::OpenOptions::new().create(true).append(true).open(crate::ev::verif_root().join("work/c01-dropped.txt")).unwrap();
                let _ = writeln!(f, "=== {id} {}\n{}\n", cases[id].0.summary, diags.iter().map(|d| d.rendered.clone()).collect::<Vec<_>>().join("\n"));
            }
            if ctx.extra.get("first_dropped").is_none() {
                ctx.extra.insert("first_dropped".into(), json!({"summary": cases[id].0.summary, "error": diags.first().map(|d| d.rendered.clone())}));
            }
        }
        for (id, (status, msg)) in &out.ran {
            let Some((case, tape)) = cases.get(id) else { continue };
            ctx.count_eval();
            for c in &case.classes {
                ctx.class(c);
            }
            if status == "ok" {
                if case.nontrivial {
                    ctx.nontrivial(&case.src);
                    ctx.sample(|| json!({"program": case.summary, "config": if feature_unimock { "unimock" } else { "plain" }}));
                }
                continue;
            }
            if msg.contains("HARNESS") || msg.contains("__REMOVED__") {
                if msg.contains("__REMOVED__") {
                    continue;
                }
                crate::ev::inconclusive(&format!("client harness fault in {id}: {msg}\n{}", case.src));
            }
            // shrink on the tape with single-case builds, then report
            let (src, msg) = shrink(ctx, tape, feature_unimock, &case.src, msg);
            ctx.violation(
                &format!("trait call differs from the direct call ({status}): {msg}"),
                &json!({"engine": "E2", "feature_unimock": feature_unimock, "src": src}),
            );
            batch.cleanup();
            return;
        }
        batch.cleanup();
        // programs that do not compile are judged after the runnable ones, against their twin (no attribute, no trait calls):
        // a trait method that cannot even be called does not "run the original function"
        let failed: Vec<(String, String, String, String)> = out
            .compile_failed
            .iter()
            .map(|(id, d)| {
                let c = &cases[id].0;
                let twin: String = c.src.lines().filter(|l| !l.starts_with("/*GEN*/")).collect::<Vec<_>>().join("\n");
                (c.summary.clone(), c.src.clone(), twin, d.first().map(|x| format!("{} {}", x.code, x.message)).unwrap_or_default())
            })
            .collect();
        let (violations, faults) = super::common::judge_compile_failures(ctx, "c01", feature_unimock, &failed, "the generated trait method cannot be called like the function");
        if violations > 0 {
            return;
        }
        total_dropped += faults;
    }
    ctx.extra.insert("programs_dropped_not_compiling".into(), json!(total_dropped));
    if total_dropped * 20 > total {
        ctx.write_evidence().ok();
        crate::ev::inconclusive(&format!("{total_dropped} of {total} generated programs (and their twins) did not compile (>5%, generator fault); first: {:?}", ctx.extra.get("first_dropped")));
    }
}

fn run_single(name: &str, feature_unimock: bool, src: &str) -> Option<(String, String)> {
    let mut b = Batch::new(name, Opts { feature_unimock, members: 1, ..Default::default() });
    b.add("c00000", src.to_string());
    let out = b.build_and_run();
    b.cleanup();
    if !out.compile_failed.is_empty() {
        return None;
    }
    out.ran.get("c00000").cloned()
}

/// shrink a failing tape with single-case builds (each step costs a compile; budgeted)
fn shrink(ctx: &mut Ctx, tape: &[u32], feature_unimock: bool, src: &str, msg: &str) -> (String, String) {
    let _ = ctx;
    let mut best = (tape.to_vec(), src.to_string(), msg.to_string());
    let mut budget = 30;
    let mut block = tape.len() / 2;
    while block >= 1 && budget > 0 {
        let mut i = 0;
        while i < best.0.len() && budget > 0 {
            if best.0[i..(i + block).min(best.0.len())].iter().all(|v| *v == 0) {
                i += block;
                continue;
            }
            let mut cand = best.0.clone();
            for v in cand[i..(i + block).min(best.0.len())].iter_mut() {
                *v = 0;
            }
            let c = gen_case(&mut Tape::new(&cand), feature_unimock);
            budget -= 1;
            if let Some((status, m)) = run_single("c01-shrink", feature_unimock, &c.src) {
                if status != "ok" && !m.contains("HARNESS") {
                    best = (cand, c.src, m);
                }
            }
            i += block;
        }
        block /= 2;
    }
    (best.1, best.2)
}

pub fn replay(ctx: &mut Ctx, v: &Value) {
    let src = super::s(v, "src");
    let feature_unimock = v.get("feature_unimock").and_then(|b| b.as_bool()).unwrap_or(false);
    ctx.count_eval();
    match run_single("c01-replay", feature_unimock, &src) {
        // (stored programs compile on the tree they were stored for: this check judges compile failures)
        None => ctx.violation("the stored program does not compile after expansion", v),
        Some((status, msg)) => {
            if status != "ok" {
                ctx.violation(&format!("trait call differs from the direct call ({status}): {msg}"), v);
            }
        }
    }
}
