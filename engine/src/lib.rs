#![allow(clippy::all)]
pub mod drive;
pub mod e1;
pub mod e2;
pub mod ev;
pub mod fuzzrun;
pub mod gen;
pub mod prog;
pub mod props;
pub mod tape;
pub mod tok;
