//! proptest drivers over choice tapes.

use crate::ev::Ctx;
use proptest::strategy::{Strategy, ValueTree};
use proptest::test_runner::{Config, RngAlgorithm, TestCaseError, TestError, TestRng, TestRunner};
use serde_json::Value;
use std::cell::RefCell;

pub struct Fail {
    pub what: String,
    pub replay: Value,
}

impl Fail {
    pub fn new(what: impl Into<String>, replay: Value) -> Self {
        Self { what: what.into(), replay }
    }
}

pub fn runner(seed: u64, stream: u64, cases: u32) -> TestRunner {
    let mut bytes = [0u8; 32];
    bytes[..8].copy_from_slice(&seed.to_le_bytes());
    bytes[8..16].copy_from_slice(&stream.to_le_bytes());
    bytes[16..24].copy_from_slice(b"entrait!");
    let config = Config {
        cases,
        failure_persistence: None,
        max_shrink_iters: 20_000,
        max_global_rejects: 0,
        ..Config::default()
    };
    TestRunner::new_with_rng(config, TestRng::from_seed(RngAlgorithm::ChaCha, &bytes))
}

pub fn tape_strategy(len: usize) -> impl Strategy<Value = Vec<u32>> {
    proptest::collection::vec(proptest::num::u32::ANY, len)
}

/// Run `cases` generated tapes through `f`. The first failure is shrunk by proptest and reported
/// as a violation; returns false if a violation was reported.
pub fn run_tapes(
    ctx: &mut Ctx,
    stream: u64,
    cases: u32,
    tape_len: usize,
    f: impl Fn(&mut Ctx, &[u32]) -> Result<(), Fail>,
) -> bool {
    let mut r = runner(ctx.seed, stream, cases);
    let cell = RefCell::new(ctx);
    let res = r.run(&tape_strategy(tape_len), |tape| {
        let mut guard = cell.borrow_mut();
        let ctx: &mut Ctx = &mut guard;
        match f(ctx, &tape) {
            Ok(()) => Ok(()),
            Err(fail) => {
                ctx.frozen = true;
                Err(TestCaseError::fail(fail.what))
            }
        }
    });
    let ctx = cell.into_inner();
    match res {
        Ok(()) => true,
        Err(TestError::Fail(_, tape)) => {
            // greedy post-passes on the tape (Hypothesis-style): delete spans (shifting the rest left) and zero
            // single positions, for as long as the failure is preserved
            let mut tape = tape;
            let fails = |ctx: &mut Ctx, tp: &[u32]| f(ctx, tp).is_err();
            for _round in 0..3 {
                for span in [8usize, 4, 2, 1] {
                    let mut i = 0;
                    while i + span <= tape.len() {
                        if tape[i..].iter().all(|v| *v == 0) {
                            break;
                        }
                        let mut cand = tape.clone();
                        cand.drain(i..i + span);
                        cand.extend(std::iter::repeat(0).take(span));
                        if fails(ctx, &cand) {
                            tape = cand;
                        } else {
                            i += 1;
                        }
                    }
                }
                for i in 0..tape.len() {
                    if tape[i] == 0 {
                        continue;
                    }
                    let saved = tape[i];
                    tape[i] = 0;
                    if !fails(ctx, &tape) {
                        tape[i] = saved;
                    }
                }
                // lower a count and delete the choices that belonged to the dropped elements
                for i in 0..tape.len() {
                    if tape[i] == 0 {
                        continue;
                    }
                    'spans: for span in [1usize, 2, 3, 4, 5, 6, 8, 10, 12, 16, 24] {
                        for off in 1..4usize {
                            if i + off + span > tape.len() {
                                continue;
                            }
                            let mut cand = tape.clone();
                            cand[i] = 0;
                            cand.drain(i + off..i + off + span);
                            cand.extend(std::iter::repeat(0).take(span));
                            if fails(ctx, &cand) {
                                tape = cand;
                                break 'spans;
                            }
                        }
                    }
                }
            }
            // re-run on the shrunk tape to obtain the replay payload
            match f(ctx, &tape) {
                Err(fail) => {
                    ctx.frozen = false;
                    ctx.violation(&fail.what, &fail.replay);
                }
                Ok(()) => {
                    ctx.frozen = false;
                    crate::ev::inconclusive("shrunk failure did not reproduce (non-deterministic oracle?)");
                }
            }
            false
        }
        Err(TestError::Abort(reason)) => crate::ev::inconclusive(&format!("proptest aborted: {reason}")),
    }
}

/// Generate `n` tapes (for E2 batches) deterministically from (seed, stream).
pub fn gen_tapes(seed: u64, stream: u64, n: usize, tape_len: usize) -> Vec<Vec<u32>> {
    let mut r = runner(seed, stream, n as u32);
    let s = tape_strategy(tape_len);
    (0..n).map(|_| s.new_tree(&mut r).expect("tape tree").current()).collect()
}

pub const WORKERS: u64 = 16;

/// Parallel version: 16 fixed worker streams (so a run is reproducible on any core count), merged into `ctx`.
pub fn run_tapes_par(
    ctx: &mut Ctx,
    stream: u64,
    cases: u64,
    tape_len: usize,
    f: impl Fn(&mut Ctx, &[u32]) -> Result<(), Fail> + Sync,
) -> bool {
    let per = (cases + WORKERS - 1) / WORKERS;
    let mut subs: Vec<Ctx> = (0..WORKERS)
        .map(|_| {
            let mut c = Ctx::new(&ctx.property, ctx.tier, ctx.seed);
            c.replay_mode = ctx.replay_mode;
            c
        })
        .collect();
    let f = &f;
    let oks: Vec<bool> = std::thread::scope(|scope| {
        let handles: Vec<_> = subs
            .iter_mut()
            .enumerate()
            .map(|(k, sub)| scope.spawn(move || run_tapes(sub, stream * 1000 + k as u64, per as u32, tape_len, f)))
            .collect();
        handles.into_iter().map(|h| h.join().unwrap_or(false)).collect()
    });
    for sub in subs {
        ctx.merge(sub);
    }
    oks.into_iter().all(|b| b)
}
