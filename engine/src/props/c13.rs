//! C13 — generated traits have exactly the requested visibility (E2, exhaustive small lattice of positive/negative probes).
//!
//! The item lives in `crate::<case>::a::b::c`. For every (mode, requested visibility, item visibility) the trait is named
//! (`use <path>::TheTrait as _;`) from six sites: the defining module, a child, a sibling, an uncle, the case root and an
//! unrelated cousin. Rust's visibility rules evaluated on the spec give the expected verdict; positives must compile,
//! negatives must be rejected with a privacy/resolution error (and are re-compiled alone before a "compiles" is believed).

use crate::e2::{Batch, Opts};
use crate::ev::Ctx;
use serde_json::{json, Value};

#[derive(Clone, Copy, PartialEq, Debug)]
enum Vis {
    Private,
    Pub,
    PubCrate,
    PubSuper,
    PubInA,
    /// explicit spellings of "private": `pub(self)`, `pub(in self)`
    PubSelf,
    PubInSelf,
    /// `pub(in super)`: the other spelling of `pub(super)`
    PubInSuper,
    /// `pub(in self::super)`: and one more
    PubInSelfSuper,
    /// `pub(in super::super::b)`: up two modules and down again by name - the same scope (`a::b`) once more
    PubInSuperSuperB,
}

impl Vis {
    fn src(&self, case: &str) -> String {
        match self {
            Vis::Private => String::new(),
            Vis::Pub => "pub ".into(),
            Vis::PubCrate => "pub(crate) ".into(),
            Vis::PubSuper => "pub(super) ".into(),
            Vis::PubInA => format!("pub(in crate::{case}::a) "),
            Vis::PubSelf => "pub(self) ".into(),
            Vis::PubInSelf => "pub(in self) ".into(),
            Vis::PubInSuper => "pub(in super) ".into(),
            Vis::PubInSelfSuper => "pub(in self::super) ".into(),
            Vis::PubInSuperSuperB => "pub(in super::super::b) ".into(),
        }
    }

    /// nameable from another crate (every enclosing module is `pub`)?
    fn exported(&self) -> bool {
        *self == Vis::Pub
    }
}

const SITES: [&str; 6] = ["same", "child", "sibling", "uncle", "root", "cousin"];
/// the seventh site: a different crate (`use ::xlib::<point>::a::b::c::Trait as _;`), built once per lattice point
const EXTERN_SITE: &str = "other crate";

/// is an item of visibility `v` defined in a::b::c nameable from `site`?
fn accessible(v: Vis, site: &str) -> bool {
    match v {
        Vis::Pub | Vis::PubCrate => true,
        Vis::Private | Vis::PubSelf | Vis::PubInSelf => matches!(site, "same" | "child"),
        Vis::PubSuper | Vis::PubInSuper | Vis::PubInSelfSuper | Vis::PubInSuperSuperB => matches!(site, "same" | "child" | "sibling"), // within a::b
        Vis::PubInA => matches!(site, "same" | "child" | "sibling" | "uncle"), // within a
    }
}

pub struct Probe {
    pub src: String,
    pub expect_ok: bool,
    pub summary: String,
}

/// the entraited item of one lattice point and the name of the trait whose visibility is probed
fn item_of(case: &str, mode: &str, v: Vis, item_vis: &str) -> (String, &'static str) {
    let vs = v.src(case);
    // an unrelated option (and the exporting alias `entrait_export`) rotates through the lattice: it must not influence visibility
    let n: usize = case[1..].parse().unwrap_or(0);
    let extra = ["", ", unimock = false", ", mock_api = TheMock", ", mockall = false", ", ?Send"][n % 5];
    // ... and neither must the exporting alias of the macro
    let mac = ["::entrait::entrait", "::entrait::entrait_export"][(n / 5) % 2];
    let (item, name) = match mode {
        "fn" => (format!("#[{mac}({vs}TheTrait{extra})]\n{item_vis}fn the_fn(_deps: &impl Sized) {{}}"), "TheTrait"),
        "mod" | "mod_path" => (format!("#[{mac}({vs}TheTrait{extra})]\n{item_vis}mod m {{ pub fn f(_deps: &impl Sized) {{}} }}"), "TheTrait"),
        // the delegation-target trait takes the visibility of the original trait, whatever is written before its name
        "trait_static" => (format!("#[{mac}({item_vis}TrImpl, delegate_by = DelegateTr{extra})]\n{vs}trait Tr {{ fn m(&self); }}"), "TrImpl"),
        // ... and so does the selector trait that is generated with it
        "trait_selector" => (format!("#[{mac}({item_vis}TrImpl, delegate_by = DelegateTr{extra})]\n{vs}trait Tr {{ fn m(&self); }}"), "DelegateTr"),
        _ => (format!("#[{mac}({item_vis}TrImpl, delegate_by = ref{extra})]\n{vs}trait Tr {{ fn m(&self); }}"), "TrImpl"),
    };
    (item, name)
}

/// one module of the library crate: the item in `<point>::a::b::c`, every module `pub`
fn lib_module(point: &str, mode: &str, v: Vis, item_vis: &str) -> String {
    let (item, _) = item_of(point, mode, v, item_vis);
    format!("pub mod {point} {{\n  pub mod a {{\n    pub mod b {{\n      pub mod c {{\n        {}\n      }}\n    }}\n  }}\n}}\n", item.replace('\n', "\n        "))
}

fn extern_probe(point: &str, mode: &str, v: Vis, item_vis: &str) -> Probe {
    let (_, name) = item_of(point, mode, v, item_vis);
    let via = if mode == "mod_path" { "::m" } else { "" };
    let src = format!("#![allow(warnings)]\n#[allow(unused_imports)] fn site() {{ use ::xlib::{point}::a::b::c{via}::{name} as _; }}\npub fn run() -> Vec<String> {{ vec![] }}\n");
    let summary = format!("{mode}: requested `{}` item `{}` named from `{EXTERN_SITE}`", v.src(point).trim(), item_vis.trim());
    // through the module path the module itself has to be `pub` as well
    let expect_ok = v.exported() && (mode != "mod_path" || item_vis.trim() == "pub");
    Probe { src, expect_ok, summary }
}

fn build(case: &str, mode: &str, v: Vis, item_vis: &str, site: &str) -> Probe {
    let vs = v.src(case);
    let (item, name) = item_of(case, mode, v, item_vis);
    // `mod_path`: reach the trait through the module it was generated in (`c::m::TheTrait`) instead of the re-export
    let via = if mode == "mod_path" { "::m" } else { "" };
    let site_fn = |rel: &str| format!("#[allow(unused_imports)] fn site() {{ use {rel}{via}::{name} as _; }}");
    let s = |cond: &str, rel: &str| if site == cond { site_fn(rel) } else { String::new() };
    let src = format!(
        "#![allow(warnings)]\n{}pub mod a {{\n  pub mod b {{\n    pub mod c {{\n{}\n      {}\n      pub mod child {{ {} }}\n    }}\n    pub mod sibling {{ {} }}\n  }}\n  pub mod uncle {{ {} }}\n}}\npub mod cousin {{ {} }}\n{}\npub fn run() -> Vec<String> {{ vec![] }}\n",
        // named through the module only, the re-export next to the module is unused: that is nothing to warn the user about
        if mode == "mod_path" { "#![deny(unused_imports)]\n" } else { "" },
        item.replace('\n', "\n      "),
        s("same", "self"),
        s("child", "super"),
        s("sibling", "super::c"),
        s("uncle", "super::b::c"),
        s("cousin", &format!("crate::{case}::a::b::c")),
        s("root", "self::a::b::c"),
    );
    let summary = format!("{mode}: requested `{}` item `{}` named from `{site}`", vs.trim(), item_vis.trim());
    // through the module path the trait is reachable only where the module itself is, and never wider than requested
    let module_visible = item_vis.starts_with("pub") || matches!(site, "same" | "child");
    let expect_ok = if mode == "mod_path" { accessible(v, site) && module_visible } else { accessible(v, site) };
    Probe { src, expect_ok, summary }
}

fn all_probes() -> Vec<(String, String, Vis, String, String)> {
    let mut out = vec![];
    for v in [Vis::Private, Vis::Pub, Vis::PubCrate, Vis::PubSuper, Vis::PubInA, Vis::PubSelf, Vis::PubInSelf, Vis::PubInSuper, Vis::PubInSelfSuper, Vis::PubInSuperSuperB] {
        for iv in ["", "pub ", "pub(crate) "] {
            for s in SITES {
                out.push(("fn".to_string(), String::new(), v, iv.to_string(), s.to_string()));
            }
        }
    }
    // module mode: a relative visibility is relative to where the attribute is written (the parent of the module)
    for v in [Vis::Private, Vis::Pub, Vis::PubCrate, Vis::PubInA, Vis::PubSuper, Vis::PubSelf, Vis::PubInSuper, Vis::PubInSelfSuper, Vis::PubInSuperSuperB] {
        for iv in ["", "pub "] {
            for s in SITES {
                out.push(("mod".to_string(), String::new(), v, iv.to_string(), s.to_string()));
            }
        }
    }
    for v in [Vis::Private, Vis::Pub, Vis::PubCrate, Vis::PubInA, Vis::PubSuper, Vis::PubInSelf, Vis::PubInSelfSuper, Vis::PubInSuperSuperB] {
        for iv in ["", "pub "] {
            for s in SITES {
                out.push(("mod_path".to_string(), String::new(), v, iv.to_string(), s.to_string()));
            }
        }
    }
    for mode in ["trait_static", "trait_ref", "trait_selector"] {
        for v in [Vis::Private, Vis::Pub, Vis::PubCrate, Vis::PubSuper, Vis::PubInA, Vis::PubSelf, Vis::PubInSelf] {
            // `item_vis` here is the visibility keyword written before the delegation-target trait's name
            for iv in ["", "pub ", "pub(crate) "] {
                for s in SITES {
                    out.push((mode.to_string(), String::new(), v, iv.to_string(), s.to_string()));
                }
            }
        }
    }
    out
}

fn compile_single(src: &str) -> Result<(), String> {
    compile_single_with(src, None)
}

fn compile_single_with(src: &str, xlib: Option<String>) -> Result<(), String> {
    // the case id is part of `pub(in ..)` / cousin paths: single builds reuse the id the source was generated with
    let id = src.split("crate::").nth(1).and_then(|r| r.split("::").next()).filter(|s| s.starts_with('c')).unwrap_or("c00000").to_string();
    let mut b = Batch::new("c13-single", Opts { feature_unimock: false, members: 1, check_only: true, xlib, ..Default::default() });
    b.add(&id, src.to_string());
    let out = b.build_and_run();
    b.cleanup();
    match out.compile_failed.values().next() {
        Some(d) => Err(d.first().map(|x| format!("{} {}", x.code, x.message)).unwrap_or_default()),
        None => Ok(()),
    }
}

pub fn run(ctx: &mut Ctx) {
    ctx.rule = "the complete lattice {fn x requested {none, pub, pub(crate), pub(super), pub(in path), pub(self), pub(in self), pub(in super)} x fn visibility {none, pub, pub(crate)}} + {mod x requested {none, pub, pub(crate), pub(in path), pub(super), pub(self) / pub(in self), pub(in super)} x mod \
                visibility {none, pub}, named through the re-export and through the module path} + {trait, static and ref delegation (delegation-target trait) x trait visibility (7) x visibility keyword written before the target trait's name {none, pub, pub(crate)}} x 6 access sites (defining module, child, sibling, uncle, case root, cousin) + the same lattice points in a library crate named from a second crate (7th site); one compiled probe \
                per point; non-trivial = probes expected to be rejected (the trait must not be wider than requested) - counted distinct by (mode, visibilities, site)"
        .into();
    ctx.assumptions.push("don't-care: the visibility of the selector trait `DelegateTr`".into());
    let list = all_probes();
    let mut batch = Batch::new("c13", Opts { feature_unimock: false, members: 16, check_only: true, ..Default::default() });
    let mut probes: Vec<Probe> = vec![];
    for (i, (mode, _, v, iv, site)) in list.iter().enumerate() {
        let id = format!("c{i:05}");
        let p = build(&id, mode, *v, iv, site);
        batch.add(&id, p.src.clone());
        probes.push(p);
    }
    let out = batch.build_and_run();
    batch.cleanup();
    super::common::crosscheck_records(ctx, &out.records);
    for (i, p) in probes.iter().enumerate() {
        let id = format!("c{i:05}");
        ctx.count_eval();
        let failed = out.compile_failed.get(&id);
        match (p.expect_ok, failed) {
            (true, None) => ctx.class("accessible_as_expected"),
            (false, Some(d)) => {
                let privacy = d.iter().any(|x| ["E0603", "E0433", "E0432", "E0412", "E0405", "E0425", "E0364", "E0365"].contains(&x.code.as_str()) || x.message.contains("private"));
                if !privacy {
                    crate::ev::inconclusive(&format!("negative probe failed with an unrelated error: {} -- {}", d.first().map(|x| x.rendered.clone()).unwrap_or_default(), p.summary));
                }
                ctx.class("rejected_as_expected");
                ctx.nontrivial(&p.summary);
                ctx.sample(|| json!(p.summary));
            }
            (true, Some(d)) => {
                ctx.violation(
                    &format!("the trait is narrower than requested: {} -- {}", d.first().map(|x| format!("{} {}", x.code, x.message)).unwrap_or_default(), p.summary),
                    &json!({"engine": "E2", "src": p.src, "summary": p.summary, "expect": "ok"}),
                );
                return;
            }
            (false, None) => {
                if compile_single(&p.src).is_ok() {
                    ctx.violation(
                        &format!("the trait is wider than requested: it can be named from a scope it should be private to -- {}", p.summary),
                        &json!({"engine": "E2", "src": p.src, "summary": p.summary, "expect": "rejected"}),
                    );
                    return;
                }
                ctx.class("rejected_as_expected");
                ctx.nontrivial(&p.summary);
            }
        }
    }
    if !extern_leg(ctx, &list) {
        return;
    }
    ctx.exhaustive = Some(true);
}

/// the other-crate site: one library crate holds every lattice point, one client module per point names its trait
fn extern_leg(ctx: &mut Ctx, list: &[(String, String, Vis, String, String)]) -> bool {
    let mut points: Vec<(String, Vis, String)> = vec![];
    for (mode, _, v, iv, _) in list {
        let k = (mode.clone(), *v, iv.clone());
        if !points.contains(&k) {
            points.push(k);
        }
    }
    let mut lib = String::from("#![allow(warnings)]\n");
    let mut probes = vec![];
    for (i, (mode, v, iv)) in points.iter().enumerate() {
        let point = format!("p{i:05}");
        lib.push_str(&lib_module(&point, mode, *v, iv));
        probes.push(extern_probe(&point, mode, *v, iv));
    }
    let mut batch = Batch::new("c13-extern", Opts { feature_unimock: false, members: 8, check_only: true, xlib: Some(lib.clone()), ..Default::default() });
    for (i, p) in probes.iter().enumerate() {
        batch.add(&format!("c{i:05}"), p.src.clone());
    }
    let out = batch.build_and_run();
    batch.cleanup();
    for (i, p) in probes.iter().enumerate() {
        let id = format!("c{i:05}");
        ctx.count_eval();
        let replay = json!({"engine": "E2", "src": p.src, "xlib": lib, "summary": p.summary, "expect": if p.expect_ok { "ok" } else { "rejected" }});
        match (p.expect_ok, out.compile_failed.get(&id)) {
            (true, None) => ctx.class("accessible_as_expected:other_crate"),
            (false, Some(d)) => {
                if !d.iter().any(|x| ["E0603", "E0433", "E0432"].contains(&x.code.as_str()) || x.message.contains("private")) {
                    crate::ev::inconclusive(&format!("negative probe failed with an unrelated error: {} -- {}", d.first().map(|x| x.rendered.clone()).unwrap_or_default(), p.summary));
                }
                ctx.class("rejected_as_expected:other_crate");
                ctx.nontrivial(&p.summary);
                ctx.sample(|| json!(p.summary));
            }
            (true, Some(d)) => {
                ctx.violation(&format!("the trait is narrower than requested: {} -- {}", d.first().map(|x| format!("{} {}", x.code, x.message)).unwrap_or_default(), p.summary), &replay);
                return false;
            }
            (false, None) => {
                if compile_single_with(&p.src, Some(lib.clone())).is_ok() {
                    ctx.violation(&format!("the trait is wider than requested: another crate can name it -- {}", p.summary), &replay);
                    return false;
                }
                ctx.class("rejected_as_expected:other_crate");
                ctx.nontrivial(&p.summary);
            }
        }
    }
    ctx.extra.insert("other_crate_points".into(), json!(probes.len()));
    true
}

pub fn replay(ctx: &mut Ctx, v: &Value) {
    ctx.count_eval();
    let xlib = v.get("xlib").and_then(|x| x.as_str()).map(String::from);
    let r = compile_single_with(&super::s(v, "src"), xlib);
    match (super::s(v, "expect").as_str(), r) {
        ("rejected", Ok(())) => ctx.violation("the trait is wider than requested", v),
        ("ok", Err(e)) => ctx.violation(&format!("the trait is narrower than requested: {e}"), v),
        _ => {}
    }
}
