//! E3: coverage-guided campaigns (cargo-fuzz / libFuzzer) over the same choice-tape generators and oracles.
//! Quick tier: the committed corpus is replayed in-process. Thorough tier: additionally a libFuzzer campaign with a fixed
//! number of runs and seed, started from the committed corpus plus a fresh directory; a crash artifact is decoded through
//! the property's own generator and reported as an ordinary replayable violation.

use crate::ev::{inconclusive, verif_root, Ctx};
use serde_json::{json, Value};
use std::path::PathBuf;
use std::process::Command;

pub type FuzzOne = fn(&[u32]) -> Option<(String, Value)>;

fn corpus_dir(target: &str) -> PathBuf {
    verif_root().join("fuzz").join("corpus").join(target)
}

pub fn tape_to_bytes(tape: &[u32]) -> Vec<u8> {
    let mut v = Vec::with_capacity(tape.len() * 2);
    for x in tape {
        v.push((x >> 24) as u8);
        v.push((x >> 16) as u8);
    }
    v
}

/// replay the committed corpus in-process; returns the number of inputs
pub fn replay_corpus(ctx: &mut Ctx, target: &str, f: FuzzOne) -> usize {
    let mut files: Vec<PathBuf> = std::fs::read_dir(corpus_dir(target)).map(|rd| rd.flatten().map(|e| e.path()).collect()).unwrap_or_default();
    files.sort();
    let mut n = 0;
    for p in files {
        let Ok(bytes) = std::fs::read(&p) else { continue };
        let tape = crate::tape::bytes_to_tape(&bytes);
        ctx.count_eval();
        n += 1;
        if let Some((msg, replay)) = f(&tape) {
            ctx.violation(&format!("{msg} (corpus input {})", p.display()), &replay);
            return n;
        }
    }
    ctx.extra.insert("fuzz_corpus_inputs_replayed".into(), json!(n));
    n
}

/// thorough tier: libFuzzer campaign. Returns false if a violation was reported.
pub fn campaign(ctx: &mut Ctx, target: &str, f: FuzzOne, runs: u64) -> bool {
    let fuzz_dir = verif_root().join("fuzz");
    let work = verif_root().join("work").join("fuzz").join(target);
    let _ = std::fs::remove_dir_all(&work);
    let fresh = work.join("corpus");
    let artifacts = work.join("artifacts");
    std::fs::create_dir_all(&fresh).ok();
    std::fs::create_dir_all(&artifacts).ok();
    let engine_dir = verif_root().join("engine");
    let build = Command::new("cargo")
        .current_dir(&engine_dir)
        .args(["+nightly", "fuzz", "build", "--fuzz-dir"])
        .arg(&fuzz_dir)
        .args(["-s", "none", target])
        .env("CARGO_NET_OFFLINE", "true")
        .output()
        .unwrap_or_else(|e| inconclusive(&format!("cannot run cargo fuzz: {e}")));
    if !build.status.success() {
        inconclusive(&format!("cargo fuzz build failed: {}", String::from_utf8_lossy(&build.stderr).lines().rev().take(15).collect::<Vec<_>>().join("\n")));
    }
    let start = std::time::Instant::now();
    let run = Command::new("cargo")
        .current_dir(&engine_dir)
        .args(["+nightly", "fuzz", "run", "--fuzz-dir"])
        .arg(&fuzz_dir)
        .args(["-s", "none", target])
        .arg(&fresh)
        .arg(corpus_dir(target))
        .arg("--")
        .arg(format!("-runs={runs}"))
        .arg(format!("-seed={}", (ctx.seed % 0xffff_fff0) + 1))
        .args(["-max_len=800", "-len_control=0", "-print_final_stats=1"])
        .arg(format!("-artifact_prefix={}/", artifacts.display()))
        .env("CARGO_NET_OFFLINE", "true")
        .output()
        .unwrap_or_else(|e| inconclusive(&format!("cannot run cargo fuzz: {e}")));
    let stderr = String::from_utf8_lossy(&run.stderr).to_string();
    let stat = |key: &str| stderr.lines().find_map(|l| l.strip_prefix(key).map(|v| v.trim().to_string()));
    ctx.extra.insert(
        format!("libfuzzer_{target}"),
        json!({"runs_requested": runs, "executed_units": stat("stat::number_of_executed_units:"), "new_units_added": stat("stat::new_units_added:"),
               "secs": start.elapsed().as_secs(), "sanitizer": "none", "seed": (ctx.seed % 0xffff_fff0) + 1}),
    );
    if let Some(n) = stat("stat::number_of_executed_units:").and_then(|v| v.parse::<u64>().ok()) {
        ctx.evaluations += n;
    }
    let crashes: Vec<PathBuf> = std::fs::read_dir(&artifacts).map(|rd| rd.flatten().map(|e| e.path()).collect()).unwrap_or_default();
    for c in &crashes {
        let Ok(bytes) = std::fs::read(c) else { continue };
        let tape = crate::tape::bytes_to_tape(&bytes);
        if let Some((msg, replay)) = f(&tape) {
            ctx.violation(&format!("{msg} (found by libFuzzer target {target})"), &replay);
            return false;
        }
    }
    if !run.status.success() && crashes.is_empty() {
        inconclusive(&format!("libFuzzer target {target} exited with {:?} without an artifact: {}", run.status.code(), stderr.lines().rev().take(10).collect::<Vec<_>>().join("\n")));
    }
    if !crashes.is_empty() {
        inconclusive(&format!("libFuzzer target {target} left {} artifact(s) that do not reproduce through the in-process oracle", crashes.len()));
    }
    true
}

/// `engine mkcorpus <target> <n>`: write n generated tapes as corpus files
pub fn mkcorpus(target: &str, n: usize, tape_len: usize) {
    let dir = corpus_dir(target);
    std::fs::create_dir_all(&dir).ok();
    for (i, tp) in crate::drive::gen_tapes(7, 4242, n, tape_len).iter().enumerate() {
        std::fs::write(dir.join(format!("gen-{i:03}")), tape_to_bytes(tp)).ok();
    }
    println!("wrote {n} corpus files to {}", dir.display());
}
