//! One module per property. `run` = regression tier (committed replays) + generated search.

use crate::ev::Ctx;
use serde_json::Value;

pub mod c01;
pub mod c02;
pub mod c03;
pub mod c04;
pub mod c05;
pub mod c06;
pub mod c07;
pub mod c08;
pub mod c09;
pub mod c10;
pub mod c11;
pub mod c12;
pub mod c13;
pub mod c14;
pub mod c15;
pub mod c16;
pub mod c17;
pub mod c18;
pub mod c19;
pub mod c20;
pub mod common;

type RunFn = fn(&mut Ctx);
type ReplayFn = fn(&mut Ctx, &Value);

pub const TABLE: &[(&str, RunFn, ReplayFn)] = &[
    ("C01", c01::run, c01::replay),
    ("C02", c02::run, c02::replay),
    ("C03", c03::run, c03::replay),
    ("C04", c04::run, c04::replay),
    ("C05", c05::run, c05::replay),
    ("C06", c06::run, c06::replay),
    ("C07", c07::run, c07::replay),
    ("C08", c08::run, c08::replay),
    ("C09", c09::run, c09::replay),
    ("C10", c10::run, c10::replay),
    ("C11", c11::run, c11::replay),
    ("C12", c12::run, c12::replay),
    ("C13", c13::run, c13::replay),
    ("C14", c14::run, c14::replay),
    ("C15", c15::run, c15::replay),
    ("C16", c16::run, c16::replay),
    ("C17", c17::run, c17::replay),
    ("C18", c18::run, c18::replay),
    ("C19", c19::run, c19::replay),
    ("C20", c20::run, c20::replay),
];

fn lookup(id: &str) -> (RunFn, ReplayFn) {
    match TABLE.iter().find(|(p, _, _)| *p == id) {
        Some((_, r, p)) => (*r, *p),
        None => crate::ev::inconclusive(&format!("no check registered for {id}")),
    }
}

pub fn run(ctx: &mut Ctx) {
    let (run, replay) = lookup(&ctx.property.clone());
    // regression tier: committed shrunk failures and golden inputs bypass the generators
    let replays = crate::ev::committed_replays(&ctx.property);
    let n = replays.len();
    for (_path, v) in replays {
        replay(ctx, &v);
    }
    ctx.extra.insert("replayed_regression_inputs".into(), serde_json::json!(n));
    run(ctx);
}

pub fn replay(ctx: &mut Ctx, v: &Value) {
    let (_, replay) = lookup(&ctx.property.clone());
    replay(ctx, v);
}

pub fn s(v: &Value, key: &str) -> String {
    v.get(key).and_then(|x| x.as_str()).unwrap_or("").to_string()
}
