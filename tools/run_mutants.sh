#!/bin/bash
# tools/run_mutants.sh [pattern]  - run every hand-made mutant in mutants/ against the check named by its file prefix (cNN-...)
cd "$(dirname "$0")/.."
for f in mutants/${1:-c}*.diff; do
  id=$(basename "$f" | cut -c1-3 | tr c C)
  r=$(tools/mutant.sh "$f" "$id" 2>&1 | tail -1 | cut -c1-160)
  echo "$(basename $f .diff) | $r"
done
