#!/bin/bash
# tools/seed_eval.sh <ID> <check ids...>: confirm a sub-agent's seeded change in its scratch worktree /tmp/seeds/<ID>,
# run the named checks against it, and store patch + demo + meta under /verif/seeded/<ID>/ (nothing is committed to /repo).
set -u
ID=$1; shift
W=/tmp/seeds/$ID
OUT=/verif/seeded/$ID
mkdir -p $OUT
cd $W || exit 2
git diff > $OUT/patch.diff
cp tests/seed_demo.rs $OUT/seed_demo.rs 2>/dev/null
mv tests/seed_demo.rs /tmp/seeds/$ID.demo.rs
suite=$(cargo test --workspace --no-fail-fast --offline 2>&1 | grep -E "^test result" | awk '{p+=$4; f+=$6} END {print p" passed, "f" failed"}')
mv /tmp/seeds/$ID.demo.rs tests/seed_demo.rs
with=$(cargo test --offline ${SEED_FEATURES:-} --test seed_demo 2>&1 | grep -E "^test result|^error(\[|:)" | head -2 | tr '\n' ' ')
git diff > /tmp/seeds/$ID.own.patch; git apply -R /tmp/seeds/$ID.own.patch   # (git stash is shared between worktrees: not safe next to running agents)
without=$(cargo test --offline ${SEED_FEATURES:-} --test seed_demo 2>&1 | grep -E "^test result|^error(\[|:)" | head -2 | tr '\n' ' ')
git apply /tmp/seeds/$ID.own.patch
echo "suite with change: $suite"; echo "demo with change: $with"; echo "demo without change: $without"
cd /verif
results=""
for c in "$@"; do
  r=$(VERIF_REPO=$W VERIF_EVIDENCE_DIR=/verif/work/mutant-evidence ./check $c --tier quick 2>&1); code=$?
  line=$(echo "$r" | grep -m1 -E "what:|INCONCLUSIVE|^OK" | cut -c1-300)
  echo "check $c exit=$code $line"
  results="$results{\"check\":\"$c\",\"exit\":$code,\"line\":$(python3 -c 'import json,sys; print(json.dumps(sys.argv[1]))' "$line")},"
done
python3 - "$ID" "$suite" "$with" "$without" "[${results%,}]" <<'PY'
import json,sys
id,suite,w,wo,res=sys.argv[1:6]
meta={"property":id,"suite_with_change":suite,"demo_with_change":w.strip(),"demo_without_change":wo.strip(),"checks_run":json.loads(res),
      "ran":"tools/seed_eval.sh in the sub-agent's scratch worktree (suite with change, demo with/without change, then ./check with VERIF_REPO pointing at the worktree)"}
p=f"/verif/seeded/{id}/meta.json"
try: old=json.load(open(p))
except Exception: old={}
old.update(meta); json.dump(old,open(p,"w"),indent=1)
PY
for d in $(ls -d /verif/work/e2-* 2>/dev/null); do rm -rf "$d"; done
