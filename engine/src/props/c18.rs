//! C18 — foreign attributes stay where the user put them.
//!
//! E1 oracle by occurrence counting of unique marker attributes: a marker on a fn / parameter / module member / impl-block
//! member occurs exactly once in the expansion (so lower-level macros see the fn once and nothing is copied onto generated
//! traits or impls); markers on the methods of an entraited trait occur on the trait method and, same list and order, on
//! the delegating method; `async_trait`/`automock` are the only attributes allowed to multiply; a `cfg`-disabled fn of an
//! entraited module / impl block must not leave an ungated trait method or delegating method behind.

use crate::drive::{run_tapes_par, Fail};
use crate::e1::{self, Outcome};
use crate::ev::Ctx;
use crate::gen::{self, FnGenCfg, TraitGenCfg, TraitItemSrc};
use crate::tape::Tape;
use crate::tok::{self, Tok};
use quote::ToTokens;
use serde_json::{json, Value};

#[derive(Clone, Debug)]
pub struct Case {
    pub mode: &'static str,
    pub macro_name: String,
    pub attr: String,
    pub item: String,
    /// markers expected exactly once
    pub once: Vec<String>,
    /// (method name) whose attribute list must be mirrored on the delegating method [trait mode]
    pub mirrored_methods: Vec<String>,
    /// fns of a module / impl block that carry a disabled cfg
    pub cfg_disabled_fns: Vec<String>,
}

impl Case {
    pub fn json(&self) -> Value {
        json!({"engine": "E1", "mode": self.mode, "macro": self.macro_name, "attr": self.attr, "item": self.item,
               "once": self.once, "mirrored_methods": self.mirrored_methods, "cfg_disabled_fns": self.cfg_disabled_fns})
    }
}

struct Markers {
    n: usize,
    once: Vec<String>,
}

impl Markers {
    fn fresh(&mut self, t: &mut Tape) -> String {
        self.n += 1;
        let m = format!("mk_{}", self.n);
        self.once.push(m.clone());
        match t.weighted(&[3, 2, 2, 1, 1, 1, 1, 1]) {
            0 => format!("#[{m}]"),
            1 => format!("#[{m}(key = \"v\", [1, 2])]"),
            2 => format!("#[doc = \"{m}\"]"),
            3 => format!("#[a::b::{m}]"),
            4 => format!("#[allow({m})]"),
            // conditional attributes are attributes of the fn like any other (only `cfg` itself is mirrored)
            5 => format!("#[cfg_attr(all(), {m})]"),
            6 => format!("#[cfg_attr(test, {m}::attr(skip(deps)))]"),
            _ => format!("#[cfg_attr(any(), {m})]"),
        }
    }
    fn some(&mut self, t: &mut Tape, max: usize) -> Vec<String> {
        let n = t.weighted(&[3, 3, 2, 1]).min(max);
        (0..n).map(|_| self.fresh(t)).collect()
    }
}

fn count_marker(toks: &[Tok], m: &str) -> usize {
    let mut n = 0;
    for t in toks {
        match t {
            Tok::Ident(x) if x == m => n += 1,
            Tok::Lit(l) if l.trim_matches('"') == m => n += 1,
            Tok::Group(_, inner) => n += count_marker(inner, m),
            _ => {}
        }
    }
    n
}

const ENABLED_CFG: [&str; 2] = ["#[cfg(all())]", "#[cfg(not(any()))]"];
// (a `cfg` inside an always-true `cfg_attr` disables the fn just the same)
// (so does one next to a nested `cfg_attr` that carries no `cfg`, one under a literal predicate, and one nested twice)
// (the last two: several `cfg`s on one fn, an enabled one first)
const DISABLED_CFG: [&str; 9] = [
    "#[cfg(any())]",
    "#[cfg(not(all()))]",
    "#[cfg_attr(all(), cfg(any()))]",
    "#[cfg_attr(not(any()), inline, cfg(not(all())), doc = \"off\")]",
    "#[cfg_attr(all(), cfg_attr(all(), inline), cfg(any()))]",
    "#[cfg_attr(true, cfg(any()))]",
    "#[cfg_attr(all(), cfg_attr(not(any()), cfg(not(all()))))]",
    "#[cfg(all())] #[cfg(any())]",
    "#[cfg(not(any()))] #[doc = \"two\"] #[cfg(not(all()))]",
];

/// the attribute carries one of the disabling `cfg`s above (as written, or reduced to its `cfg` part)
fn is_disabling(a: &syn::Attribute) -> bool {
    let s: String = a.to_token_stream().to_string().chars().filter(|c| !c.is_whitespace()).collect();
    (a.path().is_ident("cfg") || a.path().is_ident("cfg_attr")) && (s.contains("cfg(any())") || s.contains("cfg(not(all()))"))
}

fn decorate_fn(t: &mut Tape, mk: &mut Markers, f: &mut gen::FnSrc, allow_disabled: bool, disabled: &mut Vec<String>) {
    f.attrs = mk.some(t, 3);
    if f.quals.is_empty() && t.chance(1, 3) {
        f.quals = "async ".into();
    }
    match t.weighted(&[6, 1, if allow_disabled { 2 } else { 0 }]) {
        0 => {}
        1 => {
            let pos = t.choose(f.attrs.len() + 1);
            f.attrs.insert(pos, ENABLED_CFG[t.choose(2)].to_string());
        }
        _ => {
            let pos = t.choose(f.attrs.len() + 1);
            f.attrs.insert(pos, DISABLED_CFG[t.weighted(&[3, 3, 2, 2, 1, 1, 1, 2, 1])].to_string());
            disabled.push(f.name.clone());
        }
    }
    for p in f.params.iter_mut().skip(1) {
        if t.chance(1, 4) {
            // the attributed parameter need not be a plain binding: wildcard, `mut`, reference and tuple patterns too
            if let Some((pat, ty)) = p.clone().split_once(':') {
                let (pat, ty) = (pat.trim(), ty.trim());
                if !pat.contains(|c: char| !(c.is_ascii_alphanumeric() || c == '_')) {
                    *p = match t.weighted(&[4, 1, 1, 1, 1]) {
                        0 => format!("{pat}: {ty}"),
                        1 => format!("_: {ty}"),
                        2 => format!("mut {pat}: {ty}"),
                        3 => format!("({pat}, _): ({ty}, u8)"),
                        _ => format!("({pat}, {pat}_b): ({ty}, u8)"),
                    };
                }
            }
            *p = format!("{} {}", mk.fresh(t), p);
        }
    }
}

pub fn gen_case(t: &mut Tape, allow_disabled_cfg: bool) -> Case {
    let macro_name = e1::MACROS[t.weighted(&[5, 2, 2, 1])].to_string();
    let mut mk = Markers { n: 0, once: vec![] };
    let cfg = FnGenCfg { allow_concrete: false, allow_no_deps: false, allow_leading_unsafe: true, rich_syntax: false, soup_bodies: false };
    let mut disabled = vec![];
    let mut mirrored = vec![];
    match t.weighted(&[3, 3, 3, 2]) {
        0 => {
            let vis = gen::gen_vis(t);
            let cfgc = FnGenCfg { allow_concrete: true, ..cfg };
            let (mut f, form) = gen::gen_fn(t, "foo", vis, &cfgc);
            decorate_fn(t, &mut mk, &mut f, false, &mut disabled);
            if f.quals.is_empty() && t.chance(1, 5) {
                f.quals = "async ".into();
                if t.flip() {
                    f.attrs.push(gen::async_trait_attr(t));
                }
            }
            if t.chance(1, 8) {
                f.attrs.insert(0, "#[mockall::automock]".into());
            }
            let _ = form;
            let attr = gen::gen_fn_attr(t, "Foo", false);
            Case { mode: "fn", macro_name, attr, item: f.render(), once: mk.once, mirrored_methods: mirrored, cfg_disabled_fns: disabled }
        }
        1 => {
            let n = t.range(1, 4);
            let mut items = vec![];
            for i in 0..n {
                let vis = if t.chance(1, 5) { String::new() } else { gen::gen_explicit_vis(t) };
                let private = vis.is_empty();
                let (mut f, _) = gen::gen_fn(t, &format!("f{i}"), vis, &cfg);
                decorate_fn(t, &mut mk, &mut f, allow_disabled_cfg && !private, &mut disabled);
                items.push(f.render());
                if t.chance(1, 4) {
                    items.push(format!("{} pub struct S{i};", mk.fresh(t)));
                }
            }
            let mod_attrs = mk.some(t, 2).join(" ");
            let attr = gen::gen_fn_attr(t, "Foo", false);
            Case { mode: "mod", macro_name, attr, item: format!("{mod_attrs} pub mod m {{ {} }}", items.join("\n")), once: mk.once, mirrored_methods: mirrored, cfg_disabled_fns: disabled }
        }
        2 => {
            let tcfg = TraitGenCfg {
                ref_self_only: true,
                patterns: false,
                default_bodies: false,
                // associated types between the methods: a method's attributes are its own, not its neighbour's
                assoc_types: true,
                other_items: false,
                unsafety: false,
                trait_attrs: false,
                method_attrs: false,
                generics: false,
                async_methods: true,
            };
            let mut tr = gen::gen_trait(t, "Tr", &tcfg);
            tr.attrs = mk.some(t, 2);
            if t.chance(1, 5) {
                tr.attrs.push(gen::async_trait_attr(t));
            }
            for it in tr.items.iter_mut() {
                if let TraitItemSrc::Method(m) = it {
                    // every method marker is expected on the trait method and on the delegating method: not "once"
                    let before = mk.once.len();
                    m.attrs = mk.some(t, 3);
                    mk.once.truncate(before);
                    if t.chance(1, 4) {
                        let pos = t.choose(m.attrs.len() + 1);
                        let c = if t.flip() { ENABLED_CFG[t.choose(2)] } else { DISABLED_CFG[t.weighted(&[3, 3, 2, 2, 1, 1, 1, 2, 1])] };
                        m.attrs.insert(pos, c.to_string());
                    }
                    mirrored.push(m.name.clone());
                }
            }
            let attr = gen::gen_trait_attr(t);
            Case { mode: "trait", macro_name, attr, item: tr.render(), once: mk.once, mirrored_methods: mirrored, cfg_disabled_fns: disabled }
        }
        _ => {
            let n = t.range(1, 3);
            let mut items = vec![];
            for i in 0..n {
                let vis = if t.chance(1, 3) { "pub".to_string() } else { String::new() };
                let (mut f, _) = gen::gen_fn(t, &format!("f{i}"), vis, &cfg);
                decorate_fn(t, &mut mk, &mut f, allow_disabled_cfg, &mut disabled);
                items.push(f.render());
            }
            let impl_attrs = mk.some(t, 2).join(" ");
            let attr = (*t.pick(&["", "ref"])).to_string();
            Case { mode: "impl", macro_name, attr, item: format!("{impl_attrs} impl TraitImpl for MyType {{ {} }}", items.join("\n")), once: mk.once, mirrored_methods: mirrored, cfg_disabled_fns: disabled }
        }
    }
}

fn attrs_toks(attrs: &[syn::Attribute]) -> Vec<Vec<Tok>> {
    attrs.iter().map(|a| tok::toks(a.to_token_stream())).collect()
}

fn is_cfg(a: &syn::Attribute) -> bool {
    a.path().is_ident("cfg")
}

pub fn check(c: &Case) -> Result<&'static str, String> {
    let (out, ts) = match e1::outcome(&c.macro_name, &c.attr, &c.item).map_err(|e| format!("HARNESS: {e}"))? {
        Outcome::Accepted(t, ts) => (t, ts),
        Outcome::Rejected(_) => return Ok("rejected"),
        Outcome::Panic(_) => return Ok("panic"),
    };
    for m in &c.once {
        let n = count_marker(&out, m);
        if n != 1 {
            return Err(format!(
                "foreign attribute `{m}` occurs {n} times in the expansion (expected exactly once, on the item the user put it on){}",
                if n > 1 { ": it was copied onto generated code" } else { ": it was dropped" }
            ));
        }
    }
    if c.mode == "trait" || !c.cfg_disabled_fns.is_empty() {
        let file: syn::File = syn::parse2(ts).map_err(|e| format!("expansion does not parse: {e}"))?;
        if c.mode == "trait" {
            let input: syn::ItemTrait = syn::parse2(tok::parse_src(&c.item).map_err(|e| format!("HARNESS: {e}"))?).map_err(|e| format!("HARNESS: {e}"))?;
            let imp = file
                .items
                .iter()
                .find_map(|i| match i {
                    syn::Item::Impl(im) if im.trait_.as_ref().map(|(_, p, _)| p.segments.last().map(|s| s.ident == "Tr").unwrap_or(false)).unwrap_or(false) => Some(im),
                    _ => None,
                })
                .ok_or("no `impl Tr for Impl<T>` in the expansion")?;
            let out_trait = file
                .items
                .iter()
                .find_map(|i| match i {
                    syn::Item::Trait(t) if t.ident == "Tr" => Some(t),
                    _ => None,
                })
                .ok_or("no `trait Tr` in the expansion")?;
            for name in &c.mirrored_methods {
                let want = input
                    .items
                    .iter()
                    .find_map(|i| if let syn::TraitItem::Fn(f) = i { (f.sig.ident == name).then(|| attrs_toks(&f.attrs)) } else { None })
                    .ok_or("HARNESS: method not in input")?;
                let got = imp
                    .items
                    .iter()
                    .find_map(|i| if let syn::ImplItem::Fn(f) = i { (f.sig.ident == name).then(|| attrs_toks(&f.attrs)) } else { None })
                    .ok_or_else(|| format!("delegating impl has no method `{name}`"))?;
                let on_trait = out_trait
                    .items
                    .iter()
                    .find_map(|i| if let syn::TraitItem::Fn(f) = i { (f.sig.ident == name).then(|| attrs_toks(&f.attrs)) } else { None })
                    .ok_or_else(|| format!("the emitted trait has no method `{name}`"))?;
                if on_trait != want {
                    return Err(format!(
                        "attributes of trait method `{name}` did not stay on it: written [{}], emitted trait method has [{}]",
                        want.iter().map(|a| tok::render(a)).collect::<Vec<_>>().join(" "),
                        on_trait.iter().map(|a| tok::render(a)).collect::<Vec<_>>().join(" ")
                    ));
                }
                if got != want {
                    return Err(format!(
                        "attributes of trait method `{name}` are not mirrored on the delegating method: trait has [{}], delegating method has [{}]",
                        want.iter().map(|a| tok::render(a)).collect::<Vec<_>>().join(" "),
                        got.iter().map(|a| tok::render(a)).collect::<Vec<_>>().join(" ")
                    ));
                }
            }
        }
        if !c.cfg_disabled_fns.is_empty() {
            // every generated method of that name (trait method and delegating method) must carry the fn's cfg attribute
            let mut gen_methods: Vec<(String, String, Vec<syn::Attribute>)> = vec![];
            fn collect(items: &[syn::Item], out: &mut Vec<(String, String, Vec<syn::Attribute>)>) {
                for i in items {
                    match i {
                        syn::Item::Trait(t) => {
                            for it in &t.items {
                                if let syn::TraitItem::Fn(f) = it {
                                    out.push((format!("trait {}", t.ident), f.sig.ident.to_string(), f.attrs.clone()));
                                }
                            }
                        }
                        syn::Item::Impl(im) if im.trait_.is_some() => {
                            for it in &im.items {
                                if let syn::ImplItem::Fn(f) = it {
                                    out.push(("generated impl".to_string(), f.sig.ident.to_string(), f.attrs.clone()));
                                }
                            }
                        }
                        syn::Item::Mod(m) => {
                            if let Some((_, items)) = &m.content {
                                collect(items, out);
                            }
                        }
                        _ => {}
                    }
                }
            }
            collect(&file.items, &mut gen_methods);
            for name in &c.cfg_disabled_fns {
                for (place, mname, attrs) in &gen_methods {
                    if mname == name {
                        let gated = attrs.iter().any(is_disabling);
                        if !gated {
                            return Err(format!(
                                "fn `{name}` is cfg-disabled but {place} still has an ungated method `{name}` (dangling: it calls a fn that does not exist)"
                            ));
                        }
                    }
                }
            }
        }
    }
    Ok("accepted")
}

fn one(ctx: &mut Ctx, tape: &[u32], allow_disabled: bool) -> Result<(), Fail> {
    let mut t = Tape::new(tape);
    let c = gen_case(&mut t, allow_disabled);
    ctx.count_eval();
    match check(&c) {
        Ok(v) => {
            ctx.class(&format!("{}:{}", c.mode, v));
            if v == "accepted" {
                if !c.cfg_disabled_fns.is_empty() {
                    ctx.class("with_cfg_disabled_member");
                }
                if !c.once.is_empty() || !c.mirrored_methods.is_empty() {
                    ctx.nontrivial(&(&c.attr, &c.item));
                    ctx.sample(|| c.json());
                }
            }
            Ok(())
        }
        Err(e) if e.starts_with("HARNESS") => crate::ev::inconclusive(&format!("{e}\n{}", c.item)),
        Err(e) => Err(Fail::new(e, c.json())),
    }
}

pub fn run(ctx: &mut Ctx) {
    ctx.rule = "cases = fn / module / trait / impl-block inputs decoded from a proptest choice tape with unique marker attributes (`#[mk_n]`, `#[mk_n(..)]`, \
                `#[doc = \"mk_n\"]`, path-style, inside `allow(..)`) on the item, its members and their parameters, plus enabled/disabled `cfg` attributes; \
                non-trivial = accepted by the macro and >=1 marker; distinct = distinct (attr, item) text; cfg-disabled members are counted in their own class"
        .into();
    {
        let head = "#![allow(warnings)]\npub trait Other { fn other(&self) -> i32; }\npub fn run() -> Vec<String> { vec![] }\n";
        let module = "mod m {\n    pub fn a(_deps: &impl ::core::any::Any, x: i32) -> i32 { x }\n    #[cfg(any())]\n    pub fn b(deps: &impl super::Other, x: i32) -> i32 { deps.other() + x }\n}\n";
        let real = format!("{head}#[::entrait::entrait(pub TheTrait)]\n{module}pub fn u() -> i32 {{ <::entrait::Impl<()> as TheTrait>::a(&::entrait::Impl::new(()), 1) }}\n");
        let twin = format!("{head}{module}");
        if !super::common::probe_open_findings_with(
            ctx,
            "C18",
            false,
            &[("cfg-disabled-member-contributes-bounds", real, twin, &["E0277", "E0599"])],
            &["cfg-disabled-member-dangles"],
        ) {
            return;
        }
    }
    let open: Vec<_> = crate::ev::open_findings("C18").into_iter().filter(|f| f.key != "cfg-disabled-member-contributes-bounds").collect();
    let dangling_open = open.iter().any(|f| f.key == "cfg-disabled-member-dangles");
    for f in &open {
        if f.key != "cfg-disabled-member-dangles" {
            crate::ev::inconclusive(&format!("known_findings.txt lists an open C18 finding with an unknown key: {}", f.key));
        }
        // probe: stored reproducers must still fail in the stored way
        let probes = [
            ("mod", "M", "mod m { #[cfg(any())] pub fn b(d: &impl Sized) {} pub fn c(d: &impl Sized) {} }", "b"),
            ("impl", "", "impl TraitImpl for MyType { #[cfg(not(all()))] fn b(d: &impl Sized) {} }", "b"),
        ];
        let mut still = 0;
        for (mode, attr, item, name) in probes {
            ctx.count_eval();
            let c = Case { mode, macro_name: "entrait".into(), attr: attr.into(), item: item.into(), once: vec![], mirrored_methods: vec![], cfg_disabled_fns: vec![name.into()] };
            match check(&c) {
                Ok(_) => {}
                Err(e) if e.contains("dangling") => still += 1,
                Err(e) if e.starts_with("HARNESS") => crate::ev::inconclusive(&e),
                Err(e) => ctx.violation(&format!("known finding `{}` now fails differently: {e}", f.key), &c.json()),
            }
        }
        if still > 0 {
            ctx.known(&format!("key={} {} ({still}/2 probes still fail)", f.key, f.what));
        }
    }
    ctx.extra.insert("excluded_by_construction".into(), json!({"cfg_disabled_members_of_mod_and_impl": dangling_open}));
    let cases = ctx.n(150_000, 3_000_000);
    if run_tapes_par(ctx, 18, cases, 300, |c, tape| one(c, tape, !dangling_open)) && !dangling_open {
        e2_leg(ctx);
    }
}

pub fn replay(ctx: &mut Ctx, v: &Value) {
    use super::s;
    if s(v, "engine") == "E2" {
        let feature_unimock = v.get("feature_unimock").and_then(|b| b.as_bool()).unwrap_or(false);
        let mut b = crate::e2::Batch::new("c18-replay", crate::e2::Opts { feature_unimock, members: 1, ..Default::default() });
        b.add("c00000", s(v, "src"));
        let out = b.build_and_run();
        b.cleanup();
        ctx.count_eval();
        if !out.compile_failed.is_empty() || out.ran.get("c00000").map(|(st, _)| st != "ok").unwrap_or(true) {
            ctx.violation("a program with cfg-disabled members does not compile / run", v);
        }
        return;
    }
    let list = |k: &str| -> Vec<String> { v.get(k).and_then(|a| a.as_array()).map(|a| a.iter().filter_map(|x| x.as_str().map(String::from)).collect()).unwrap_or_default() };
    let mode: &'static str = match s(v, "mode").as_str() {
        "fn" => "fn",
        "mod" => "mod",
        "trait" => "trait",
        _ => "impl",
    };
    let c = Case { mode, macro_name: s(v, "macro"), attr: s(v, "attr"), item: s(v, "item"), once: list("once"), mirrored_methods: list("mirrored_methods"), cfg_disabled_fns: list("cfg_disabled_fns") };
    ctx.count_eval();
    match check(&c) {
        Ok(_) => {}
        Err(e) if e.starts_with("HARNESS") => crate::ev::inconclusive(&e),
        Err(e) => ctx.violation(&e, v),
    }
}

// ---------- E2 leg: cfg-disabled members really leave nothing dangling (compiled by rustc) ----------

fn e2_case(t: &mut Tape, feature_unimock: bool) -> (String, String) {
    // members: (name, enabled?, async?); disabled members mention a type that does not exist
    let n = t.range(1, 4);
    let mut members: Vec<(String, bool, bool)> = (0..n).map(|i| (format!("f{i}"), t.chance(1, 2), t.chance(1, 3))).collect();
    if members.iter().all(|m| !m.1) {
        members[0].1 = true;
    }
    if members.iter().all(|m| m.1) {
        let k = members.len() - 1;
        members[k].1 = false;
    }
    let mode = t.choose(4); // mod, impl static, impl dyn, trait
    let mocks = feature_unimock && t.flip();
    // (don't-care: with a mock derivation on the trait, a `cfg` inside `cfg_attr` is the mock library's to understand -
    // unimock's derive only looks at plain `cfg` attributes of the methods - so those spellings are used without mocks only)
    let cfg_off = move |t: &mut Tape| DISABLED_CFG[if mocks { t.weighted(&[3, 3, 0, 0, 0, 0, 0, 2, 1]) } else { t.weighted(&[3, 3, 2, 2, 1, 1, 1, 2, 1]) }];
    let cfg_on = |t: &mut Tape| if t.chance(1, 3) { ENABLED_CFG[t.choose(2)] } else { "" };
    let mut src = String::from("#![allow(warnings)]\nuse crate::rt;\npub struct App;\n");
    let mut run = String::from("pub fn run() -> Vec<String> {\n    let mut fails = vec![];\n    let app = ::entrait::Impl::new(App);\n");
    let mut summary = String::new();
    // (`inner`: the `cfg` is written at the top of the body, `{ #![cfg(..)] .. }`, which gates the fn just the same)
    let fn_src = |name: &str, on: bool, is_async: bool, vis: &str, attr: &str, deps: &str, inner: bool| {
        let q = if is_async { "async " } else { "" };
        let inner = inner && !attr.contains("inline") && !attr.contains("doc");
        let (outer, top) = if inner { (String::new(), format!("{} ", attr.replace("#[", "#![")) ) } else { (attr.to_string(), String::new()) };
        if on {
            format!("    {outer} {vis}{q}fn {name}({deps}x: u64) -> u64 {{ {top}x + 1 }}\n")
        } else {
            format!("    {outer} {vis}{q}fn {name}({deps}x: NoSuchType) -> NoSuchType {{ {top}no_such_fn(x) }}\n")
        }
    };
    let inner_cfgs: Vec<bool> = (0..n).map(|_| t.chance(1, 3)).collect();
    let any_inner = mode < 3 && inner_cfgs.iter().any(|b| *b);
    let call = |name: &str, is_async: bool| if is_async { format!("rt::block_on(TheTrait::{name}(&app, 1))") } else { format!("TheTrait::{name}(&app, 1)") };
    match mode {
        0 => {
            let attr = if mocks { "#[::entrait::entrait_export(pub TheTrait, mock_api = TheMock)]" } else { "#[::entrait::entrait(pub TheTrait)]" };
            src.push_str(&format!("{attr}\npub mod m {{\n"));
            for (k, (name, on, a)) in members.iter().enumerate() {
                let c = if *on { cfg_on(t) } else { cfg_off(t) };
                src.push_str(&fn_src(name, *on, *a, "pub ", c, "_deps: &impl ::core::any::Any, ", inner_cfgs[k]));
            }
            src.push_str("}\n");
            summary = format!("{attr} mod with members {:?}", members);
        }
        1 | 2 => {
            let dynamic = mode == 2;
            let any_async = members.iter().any(|m| m.2);
            // dynamic dispatch of async methods needs async_trait: keep the dynamic variant synchronous
            if dynamic && any_async {
                for m in members.iter_mut() {
                    m.2 = false;
                }
            }
            let tattr = if dynamic { "#[::entrait::entrait(TheImpl, delegate_by = ref)]" } else { "#[::entrait::entrait(TheImpl, delegate_by = DelegateIt)]" };
            src.push_str(&format!("{tattr}\npub trait TheTrait {{\n"));
            let cfgs: Vec<&str> = members.iter().map(|(_, on, _)| if *on { cfg_on(t) } else { cfg_off(t) }).collect();
            for ((name, on, a), c) in members.iter().zip(cfgs.iter()) {
                let q = if *a { "async " } else { "" };
                let ty = if *on { "u64" } else { "NoSuchType" };
                src.push_str(&format!("    {c} {q}fn {name}(&self, x: {ty}) -> {ty};\n"));
            }
            src.push_str(&format!("}}\npub struct X;\n#[::entrait::entrait{}]\nimpl TheImpl for X {{\n", if dynamic { "(ref)" } else { "" }));
            for (k, ((name, on, a), c)) in members.iter().zip(cfgs.iter()).enumerate() {
                src.push_str(&fn_src(name, *on, *a, "pub ", c, "_deps: &impl ::core::any::Any, ", inner_cfgs[k]));
            }
            src.push_str("}\n");
            if dynamic {
                src.push_str("impl AsRef<dyn TheImpl<Self>> for App { fn as_ref(&self) -> &(dyn TheImpl<Self> + 'static) { &X } }\n");
            } else {
                src.push_str("impl DelegateIt<Self> for App { type Target = X; }\n");
            }
            summary = format!("{tattr} trait + #[entrait{}] impl block with members {:?}", if dynamic { "(ref)" } else { "" }, members);
        }
        _ => {
            let attr = if mocks { "#[::entrait::entrait_export(mock_api = TheMock)]" } else { "#[::entrait::entrait]" };
            src.push_str(&format!("{attr}\npub trait TheTrait {{\n"));
            let cfgs: Vec<&str> = members.iter().map(|(_, on, _)| if *on { cfg_on(t) } else { cfg_off(t) }).collect();
            for ((name, on, a), c) in members.iter().zip(cfgs.iter()) {
                let q = if *a { "async " } else { "" };
                let ty = if *on { "u64" } else { "NoSuchType" };
                src.push_str(&format!("    {c} {q}fn {name}(&self, x: {ty}) -> {ty};\n"));
            }
            src.push_str("}\nimpl TheTrait for App {\n");
            for ((name, on, a), c) in members.iter().zip(cfgs.iter()) {
                src.push_str(&fn_src(name, *on, *a, "", c, "&self, ", false));
            }
            src.push_str("}\n");
            summary = format!("{attr} trait with methods {:?}", members);
        }
    }
    for (name, on, a) in &members {
        if *on {
            run.push_str(&format!("    rt::expect_eq(&mut fails, \"{name}\", &{}, &2u64);\n", call(name, *a)));
        }
    }
    run.push_str("    fails\n}\n");
    src.push_str(&run);
    if any_inner {
        summary.push_str(" [some `cfg`s written as inner attributes of the fn bodies]");
    }
    (src, summary)
}

pub fn e2_leg(ctx: &mut Ctx) -> bool {
    use crate::e2::{Batch, Opts};
    let n = ctx.n(150, 2000) as usize;
    for feature_unimock in [false, true] {
        let tapes = crate::drive::gen_tapes(ctx.seed, 1800 + feature_unimock as u64, n, 48);
        let cases: Vec<(String, String)> = tapes.iter().map(|tp| e2_case(&mut Tape::new(tp), feature_unimock)).collect();
        let mut batch = Batch::new(&format!("c18-e2-{}", if feature_unimock { "unimock" } else { "plain" }), Opts { feature_unimock, members: 16, ..Default::default() });
        for (i, c) in cases.iter().enumerate() {
            batch.add(&format!("c{i:05}"), c.0.clone());
        }
        let out = batch.build_and_run();
        batch.cleanup();
        super::common::crosscheck_records(ctx, &out.records);
        if let Some((id, d)) = out.compile_failed.iter().next() {
            let i: usize = id[1..].parse().unwrap_or(0);
            ctx.count_eval();
            ctx.violation(
                &format!(
                    "a program with cfg-disabled members does not compile (something generated was left dangling): {} -- {}",
                    d.first().map(|x| format!("{} {}", x.code, x.message)).unwrap_or_default(),
                    cases[i].1
                ),
                &json!({"engine": "E2", "feature_unimock": feature_unimock, "src": cases[i].0, "summary": cases[i].1}),
            );
            return false;
        }
        for (id, (status, msg)) in &out.ran {
            let i: usize = id[1..].parse().unwrap_or(0);
            ctx.count_eval();
            if status != "ok" {
                ctx.violation(&format!("enabled members misbehave next to cfg-disabled ones: {msg} -- {}", cases[i].1), &json!({"engine": "E2", "feature_unimock": feature_unimock, "src": cases[i].0}));
                return false;
            }
            ctx.class("e2:cfg_disabled_members_compiled_and_run");
            if cases[i].1.contains("inner attributes") {
                ctx.class("e2:cfg_written_as_an_inner_attribute_of_the_fn_body");
            }
        }
    }
    true
}
