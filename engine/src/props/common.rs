//! Shared case generators.

use crate::e1;
use crate::gen::{self, TraitGenCfg};
use crate::tape::Tape;

#[derive(Clone, Debug, PartialEq, Eq, Hash)]
pub struct Invocation {
    pub macro_name: String,
    pub attr: String,
    pub item: String,
    pub mode: &'static str,
}

pub fn rich_trait_cfg() -> TraitGenCfg {
    TraitGenCfg {
        ref_self_only: true,
        patterns: true,
        default_bodies: true,
        assoc_types: true,
        other_items: false,
        unsafety: true,
        trait_attrs: true,
        method_attrs: true,
        generics: true,
        async_methods: true,
    }
}

/// A mostly-accepted invocation in any of the four modes.
pub fn gen_invocation(t: &mut Tape) -> Invocation {
    match t.weighted(&[6, 3, 1]) {
        0 => {
            let c = super::c02::gen_case(t, true);
            Invocation { macro_name: c.macro_name, attr: c.attr, item: c.item, mode: c.mode }
        }
        1 => {
            let macro_name = e1::MACROS[t.weighted(&[5, 2, 2, 1])].to_string();
            let tr = gen::gen_trait(t, "Tr", &rich_trait_cfg());
            Invocation { macro_name, attr: gen::gen_trait_attr(t), item: tr.render(), mode: "trait" }
        }
        _ => {
            let known = super::c15::Known { raw_fn_name_conflict: true, trait_patterns: true };
            let c = super::c15::gen_case(t, &known);
            Invocation { macro_name: c.macro_name, attr: c.attr, item: c.item, mode: "any" }
        }
    }
}

/// E1 is only trusted because E2 cross-checks it: every record the recorder hook produced during a real rustc build is
/// re-expanded in-process and compared token for token. A mismatch is a harness fault (exit 2), never a violation.
pub fn crosscheck_records(ctx: &mut crate::ev::Ctx, records: &[crate::tok::Record]) {
    let mut agreed = 0u64;
    for r in records {
        let Some(out) = &r.output else { continue };
        let attr = crate::tok::stream_from_json(&r.attr_json).unwrap_or_else(|e| crate::ev::inconclusive(&format!("record attr: {e}")));
        let input = crate::tok::stream_from_json(&r.input_json).unwrap_or_else(|e| crate::ev::inconclusive(&format!("record input: {e}")));
        match e1::expand_ts(&r.macro_name, attr, input) {
            e1::Expansion::Tokens(ts) => {
                let got = crate::tok::toks(ts);
                if &got != out {
                    crate::ev::inconclusive(&format!(
                        "E1 port diverged from the real expansion for #[{}({})] on `{}`",
                        r.macro_name,
                        crate::tok::render(&r.attr),
                        super::c20::truncate(&crate::tok::render(&r.input), 300)
                    ));
                }
                agreed += 1;
            }
            e1::Expansion::Panic(m) => crate::ev::inconclusive(&format!("E1 panicked on a recorded input that rustc expanded: {m}")),
        }
    }
    let prev = ctx.extra.get("e1_e2_expansions_agreeing").and_then(|v| v.as_u64()).unwrap_or(0);
    ctx.extra.insert("e1_e2_expansions_agreeing".into(), serde_json::json!(prev + agreed));
}

/// Programs of a behavioural (run-time) check that did not compile: a program whose *plain twin* (same program without the
/// entrait attribute and without the code that needs the generated items) compiles failed because of the expansion -
/// that is reported as a violation. A failing twin is a generator fault (counted; the caller decides about inconclusive).
/// Returns (violations reported, generator faults).
pub fn judge_compile_failures(
    ctx: &mut crate::ev::Ctx,
    name: &str,
    feature_unimock: bool,
    failed: &[(String, String, String, String)], // (summary, src, twin src, first error)
    what: &str,
) -> (usize, usize) {
    if failed.is_empty() {
        return (0, 0);
    }
    let mut b = crate::e2::Batch::new(&format!("{name}-twins"), crate::e2::Opts { feature_unimock, members: 8, check_only: true, ..Default::default() });
    for (i, f) in failed.iter().enumerate() {
        b.add(&format!("t{i:05}"), f.2.clone());
    }
    let out = b.build_and_run();
    b.cleanup();
    let mut faults = 0;
    for (i, f) in failed.iter().enumerate() {
        if out.compile_failed.contains_key(&format!("t{i:05}")) {
            faults += 1;
            ctx.class("generator_invalid_twin_failed");
            continue;
        }
        ctx.count_eval();
        ctx.violation(
            &format!("{what}: the program does not compile although its twin (the same program without the construct under test) does: {} -- in {}", f.3.lines().next().unwrap_or(""), f.0),
            &serde_json::json!({"engine": "E2", "feature_unimock": feature_unimock, "src": f.1, "twin": f.2, "summary": f.0, "expect": "compiles"}),
        );
        return (1, faults);
    }
    (0, faults)
}

/// Open known findings (known_findings.txt, never written at run time) are probed with their stored reproducers:
/// `table` maps a finding key to (entraited program, plain twin, substring of the expected rustc error code or message).
/// Still failing in the stored way => KNOWN-FINDING line; failing in another way => violation; compiling => nothing.
/// An open finding whose key is not in the table makes the run inconclusive. Returns false after a violation.
pub fn probe_open_findings(ctx: &mut crate::ev::Ctx, property: &str, table: &[(&str, String, String, &[&str])]) -> bool {
    probe_open_findings_with(ctx, property, false, table, &[])
}

/// `feature_unimock`: the cargo feature setting the probes are built with; `handled_elsewhere`: keys the calling check deals with itself
pub fn probe_open_findings_with(ctx: &mut crate::ev::Ctx, property: &str, feature_unimock: bool, table: &[(&str, String, String, &[&str])], handled_elsewhere: &[&str]) -> bool {
    for f in crate::ev::open_findings(property) {
        if handled_elsewhere.contains(&f.key.as_str()) {
            continue;
        }
        let Some((_, real, twin, expect)) = table.iter().find(|row| row.0 == f.key) else {
            crate::ev::inconclusive(&format!("known_findings.txt lists an open {property} finding with an unknown key: {}", f.key));
        };
        let mut b = crate::e2::Batch::new(&format!("{}-known", property.to_lowercase()), crate::e2::Opts { feature_unimock, members: 2, check_only: true, ..Default::default() });
        b.add("c00000", real.clone());
        b.add("t00000", twin.clone());
        let out = b.build_and_run();
        b.cleanup();
        ctx.count_eval();
        if out.compile_failed.contains_key("t00000") {
            crate::ev::inconclusive(&format!("{property} known-finding probe `{}`: the twin does not compile", f.key));
        }
        if let Some(d) = out.compile_failed.get("c00000") {
            if d.iter().any(|x| expect.iter().any(|e| x.code.contains(e) || x.message.contains(e))) {
                ctx.known(&format!("key={} {}", f.key, f.what));
            } else {
                ctx.violation(
                    &format!("known finding `{}` now fails differently: {}", f.key, d.first().map(|x| format!("{} {}", x.code, x.message)).unwrap_or_default()),
                    &serde_json::json!({"engine": "E2", "feature_unimock": false, "src": real, "twin": twin, "real": real, "summary": f.key, "expect": "compiles"}),
                );
                return false;
            }
        }
    }
    true
}
