#!/bin/bash
# tools/multiseed.sh <seeds...>: every check's quick tier under several PRNG seeds (evidence redirected); prints non-OK lines
cd "$(dirname "$0")/.."
: > work/multiseed.log
for s in "$@"; do
  for id in C01 C02 C03 C04 C05 C06 C07 C08 C09 C10 C11 C12 C13 C14 C15 C16 C17 C18 C19 C20; do
    r=$(VERIF_SEED=$s VERIF_EVIDENCE_DIR=/verif/work/multiseed-evidence ./check $id --tier quick 2>&1 | grep -E "^OK|VIOLATION|INCONCLUSIVE|what:" | head -3 | tr '\n' ' ')
    echo "seed=$s $r" >> work/multiseed.log
  done
done
grep -v " OK property" work/multiseed.log; echo "lines: $(wc -l < work/multiseed.log), ok: $(grep -c ' OK property' work/multiseed.log)"
