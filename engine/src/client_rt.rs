// Runtime support compiled into every generated E2 client crate as `crate::rt`.
// (This file is `include_str!`ed by the engine and also type-checked as part of it, so keep it std-only.)
#![allow(dead_code)]

use std::cell::RefCell;
use std::future::Future;
use std::pin::Pin;
use std::task::{Context, Poll, RawWaker, RawWakerVTable, Waker};

// ---- allocation counting (C14): every client binary counts its heap allocations ----
pub struct CountingAlloc;
static ALLOCS: ::std::sync::atomic::AtomicU64 = ::std::sync::atomic::AtomicU64::new(0);
unsafe impl ::std::alloc::GlobalAlloc for CountingAlloc {
    unsafe fn alloc(&self, layout: ::std::alloc::Layout) -> *mut u8 {
        ALLOCS.fetch_add(1, ::std::sync::atomic::Ordering::Relaxed);
        ::std::alloc::System.alloc(layout)
    }
    unsafe fn dealloc(&self, ptr: *mut u8, layout: ::std::alloc::Layout) {
        ::std::alloc::System.dealloc(ptr, layout)
    }
    unsafe fn realloc(&self, ptr: *mut u8, layout: ::std::alloc::Layout, new_size: usize) -> *mut u8 {
        ALLOCS.fetch_add(1, ::std::sync::atomic::Ordering::Relaxed);
        ::std::alloc::System.realloc(ptr, layout, new_size)
    }
}
#[global_allocator]
static GLOBAL: CountingAlloc = CountingAlloc;
/// number of heap allocations (alloc + realloc) performed by this process so far
pub fn allocs() -> u64 {
    ALLOCS.load(::std::sync::atomic::Ordering::Relaxed)
}

thread_local! {
    static TRACE: RefCell<Vec<String>> = const { RefCell::new(Vec::new()) };
}

/// bodies of generated fns push one entry per invocation
pub fn trace(entry: String) {
    TRACE.with(|t| t.borrow_mut().push(entry));
}

pub fn take() -> Vec<String> {
    TRACE.with(|t| std::mem::take(&mut *t.borrow_mut()))
}

/// address of a referent, as an identity
pub fn addr<T: ?Sized>(r: &T) -> usize {
    r as *const T as *const () as usize
}

/// identity for by-value receivers
pub trait HasId {
    fn id(&self) -> u32;
}

/// A future that is pending exactly once.
pub struct YieldOnce(bool);

pub fn yield_once() -> YieldOnce {
    YieldOnce(false)
}

impl Future for YieldOnce {
    type Output = ();
    fn poll(mut self: Pin<&mut Self>, cx: &mut Context<'_>) -> Poll<()> {
        if self.0 {
            Poll::Ready(())
        } else {
            self.0 = true;
            cx.waker().wake_by_ref();
            Poll::Pending
        }
    }
}

fn noop_raw_waker() -> RawWaker {
    fn no_op(_: *const ()) {}
    fn clone(_: *const ()) -> RawWaker {
        noop_raw_waker()
    }
    static VTABLE: RawWakerVTable = RawWakerVTable::new(clone, no_op, no_op, no_op);
    RawWaker::new(std::ptr::null(), &VTABLE)
}

/// dependency-free executor: polls until ready (bounded, so a never-ready future is reported, not hung on)
pub fn block_on<F: Future>(fut: F) -> F::Output {
    let mut fut = Box::pin(fut);
    let waker = unsafe { Waker::from_raw(noop_raw_waker()) };
    let mut cx = Context::from_waker(&waker);
    for _ in 0..10_000 {
        if let Poll::Ready(v) = fut.as_mut().poll(&mut cx) {
            return v;
        }
    }
    panic!("future did not complete within 10000 polls");
}

/// like block_on but without boxing: used where allocations are being counted
pub fn block_on_pinned<F: Future>(fut: F) -> F::Output {
    let mut fut = std::pin::pin!(fut);
    let waker = unsafe { Waker::from_raw(noop_raw_waker()) };
    let mut cx = Context::from_waker(&waker);
    for _ in 0..10_000 {
        if let Poll::Ready(v) = fut.as_mut().poll(&mut cx) {
            return v;
        }
    }
    panic!("future did not complete within 10000 polls");
}

pub fn is_send<T: Send>(_: &T) {}
pub fn is_sync<T: Sync>(_: &T) {}

/// compare two observations, pushing a message on mismatch
pub fn expect_eq<T: PartialEq + std::fmt::Debug>(fails: &mut Vec<String>, what: &str, got: &T, want: &T) {
    if got != want {
        fails.push(format!("{what}: got {got:?}, want {want:?}"));
    }
}

/// run all cases of a member crate and print one line per case
pub fn run_cases(cases: &[(&str, fn() -> Vec<String>)]) {
    let prev = std::panic::take_hook();
    std::panic::set_hook(Box::new(|_| {}));
    // VERIF_START_AT=<k>: skip the first k cases (the engine restarts a member after a case aborted the process)
    let start_at: usize = std::env::var("VERIF_START_AT").ok().and_then(|v| v.parse().ok()).unwrap_or(0);
    for (idx, (name, f)) in cases.iter().enumerate() {
        if idx < start_at {
            continue;
        }
        {
            use std::io::Write;
            println!("START\t{name}\t{idx}");
            let _ = std::io::stdout().flush();
        }
        let _ = take();
        match std::panic::catch_unwind(*f) {
            Ok(msgs) if msgs.is_empty() => println!("CASE\t{name}\tok"),
            Ok(msgs) => println!("CASE\t{name}\tfail\t{}", msgs.join(" ;; ").replace('\n', " ").replace('\t', " ")),
            Err(e) => {
                let msg = e.downcast_ref::<String>().cloned().or_else(|| e.downcast_ref::<&str>().map(|s| s.to_string())).unwrap_or_default();
                println!("CASE\t{name}\tpanic\t{}", msg.replace('\n', " ").replace('\t', " "))
            }
        }
    }
    std::panic::set_hook(prev);
}
