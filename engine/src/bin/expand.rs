//! expand <macro> <attr> <item>  — print the E1 expansion (debug aid)
fn main() {
    let a: Vec<String> = std::env::args().skip(1).collect();
    match engine::e1::expand_src(&a[0], &a[1], &a[2]) {
        Ok(engine::e1::Expansion::Tokens(ts)) => println!("{ts}"),
        Ok(engine::e1::Expansion::Panic(m)) => println!("PANIC: {m}"),
        Err(e) => println!("ERR: {e}"),
    }
}
