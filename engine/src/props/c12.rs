//! C12 — async methods: exact Output type, Send by default, `?Send` honoured; `async_trait` re-applied (E2).
//!
//! Positive programs carry compile-time witnesses derived from the generator's model - `is_send(&d.m(..))` inside a fn
//! generic over `D: Trait + Sync` (so Send-ness must come from the method's declared return type), an exact
//! `PhantomData<F::Output>` ascription, Rc-across-await bodies under `?Send` - and are run to completion against the direct
//! call. Negative programs must be rejected: a non-Send body without `?Send`, and the `is_send` witness under `?Send`.
//! `async_trait` inputs are used as `dyn Trait` and their recorded expansions are inspected.

use crate::e2::{Batch, Opts};
use crate::ev::Ctx;
use crate::tape::Tape;
use crate::tok::Record;
use serde_json::{json, Value};

#[derive(Clone, Copy, PartialEq, Debug)]
pub enum Ret {
    Unit,
    Owned,
    FromArg,
    FromDeps,
    Gen,
    /// `no_deps` fns only: `-> &str` borrowed from the only reference argument `a: &str` (both lifetimes elided)
    FromElidedArg,
}

#[derive(Clone, Copy, PartialEq, Debug)]
pub enum Kind {
    Fn,
    Mod,
    TraitStatic,
    TraitDynAsyncTrait,
    ImplBlock,
    /// `#[entrait(ref)] #[async_trait] impl TrImpl for X` behind `delegate_by = ref`
    ImplBlockDyn,
}

pub struct Case {
    pub src: String,
    /// expected verdict: true = must compile and run ok; false = must be rejected by rustc
    pub positive: bool,
    pub summary: String,
    pub nontrivial: bool,
    pub classes: Vec<&'static str>,
}

const HEADER: &str = "#![allow(warnings)]\nuse crate::rt;\nuse ::core::marker::PhantomData;\nuse ::core::future::Future;\nuse ::std::rc::Rc;\n\
pub struct App { pub name: String }\npub struct Conf { pub name: String }\n\
fn out<F: Future>(_: &F) -> PhantomData<F::Output> { PhantomData }\nfn is_send<T: Send>(_: &T) {}\n";

/// an argument type that only an `async fn` may write like this: the lifetime inside the `impl Trait` is anonymous
const ANON_ITER: &str = "impl Iterator<Item = &str> + Send";

struct Spec {
    arg_tys: Vec<&'static str>,
    kind: Kind,
    ret: Ret,
    no_send: bool,
    n_args: usize,
    concrete: bool,
    /// how the `async_trait` attribute is spelled (it is recognised by its name, whatever path leads to it)
    at_spelling: usize,
    /// `no_deps` (Fn / Mod kinds): the fn has no dependency parameter, the method gets a `&self` the fn knows nothing about
    no_deps: bool,
    /// TraitStatic: two more async methods with default bodies that no implementor overrides - one with an unused by-value
    /// argument that has a destructor (an `async fn` moves every argument into its future), one whose tail expression needs
    /// an unsizing coercion to the declared return type
    dflt: bool,
}

/// `reexp` re-exports the attribute (the way `axum::async_trait` / a crate prelude does)
const AT_SPELLINGS: [&str; 4] = ["#[::async_trait::async_trait]", "#[reexp::async_trait]", "#[self::reexp::async_trait]", "#[async_trait]"];
const AT_PRELUDE: &str = "pub mod reexp { pub use ::async_trait::async_trait; }\nuse ::async_trait::async_trait;\n";

impl Spec {
    fn ret_ty(&self, lt: &str) -> String {
        match self.ret {
            Ret::Unit => "()".into(),
            Ret::Owned => "String".into(),
            Ret::FromArg | Ret::FromElidedArg => format!("&{lt} str"),
            Ret::FromDeps => "&'d str".into(),
            Ret::Gen => "i64".into(),
        }
    }
    fn ret_decl(&self) -> String {
        match self.ret {
            Ret::Unit => String::new(),
            Ret::Owned => " -> String".into(),
            Ret::FromArg => " -> &'a str".into(),
            Ret::FromElidedArg => " -> &str".into(),
            Ret::FromDeps => " -> &str".into(),
            Ret::Gen => " -> T".into(),
        }
    }
    fn value(&self, deps: &str) -> String {
        match self.ret {
            Ret::Unit => "()".into(),
            Ret::Owned => "format!(\"R{}\", p0)".into(),
            Ret::FromArg | Ret::FromElidedArg => "a".into(),
            Ret::FromDeps => format!("{deps}.name.as_str()"),
            Ret::Gen => "T::default()".into(),
        }
    }
    /// extra params: p0: i32 always, `a: &'a str` when FromArg
    fn params(&self) -> Vec<(String, String)> {
        let mut v = vec![("p0".to_string(), "i32".to_string())];
        for i in 1..self.n_args {
            v.push((format!("p{i}"), self.arg_tys[i % self.arg_tys.len()].to_string()));
        }
        if self.ret == Ret::FromArg {
            v.push(("a".into(), "&'a str".into()));
        }
        if self.ret == Ret::FromElidedArg {
            v.push(("a".into(), "&str".into()));
        }
        v
    }
    fn lt_decl(&self) -> Vec<&'static str> {
        if self.ret == Ret::FromArg {
            vec!["'a"]
        } else {
            vec![]
        }
    }
    fn body(&self, deps: &str, hold_rc: bool) -> String {
        let rc = if hold_rc { "    let __rc = Rc::new(5);\n" } else { "" };
        let use_rc = if hold_rc { "    let _ = *__rc;\n" } else { "" };
        // the body leaves a trace entry *after* its await point: a future that is created but never awaited leaves none
        format!("{{\n{rc}    rt::yield_once().await;\n{use_rc}    rt::trace(String::from(\"BODY\"));\n    {}\n}}", self.value(deps))
    }
    fn call_values(&self) -> String {
        let mut v: Vec<String> = (0..self.n_args.max(1))
            .map(|i| {
                let ty = if i == 0 { "i32" } else { self.arg_tys[i % self.arg_tys.len()] };
                match ty {
                    "i32" => format!("{}i32", 3 + i),
                    "u8" => format!("{}u8", 3 + i),
                    "bool" => "true".to_string(),
                    ty if ty.starts_with("impl Iterator") => "\"a b\".split(' ')".to_string(),
                    _ => format!("String::from(\"v{i}\")"),
                }
            })
            .collect();
        if matches!(self.ret, Ret::FromArg | Ret::FromElidedArg) {
            v.push("\"arg\"".into());
        }
        v.join(", ")
    }
}

/// build one program; `negative`: None = positive; Some("rc_without_maybe_send") / Some("is_send_under_maybe_send")
fn build(spec: &Spec, negative: Option<&str>) -> (String, String) {
    let mut src = String::from(HEADER);
    let hold_rc = match negative {
        Some("rc_without_maybe_send") => true,
        Some(_) => false,
        None => spec.no_send,
    };
    let opt = if spec.no_send { ", ?Send" } else { "" };
    let ps = spec.params();
    let ps_src: String = ps.iter().map(|(n, t)| format!(", {n}: {t}")).collect();
    let arg_names: String = ps.iter().map(|(n, _)| n.clone()).collect::<Vec<_>>().join(", ");
    let lts = spec.lt_decl();
    let vals = spec.call_values();
    let ret_is_gen = spec.ret == Ret::Gen;
    let targs = if ret_is_gen { "<i64>" } else { "" };
    let summary;
    // the witness: generic over the implementor, so that nothing but the trait method's own signature can make it compile
    let witness = |trait_path: &str, method: &str, want_send: bool, recv_bound_extra: &str| -> String {
        let mut g: Vec<String> = lts.iter().map(|s| s.to_string()).collect();
        if spec.ret == Ret::FromDeps {
            g.insert(0, "'d".into());
        }
        if spec.ret == Ret::FromElidedArg {
            // the caller's lifetimes: the receiver's and the argument's are unrelated, the output is the argument's
            g.push("'x".into());
            g.push("'a".into());
        }
        g.push(format!("D: {trait_path}{targs} + Sync{recv_bound_extra}"));
        let recv = if spec.ret == Ret::FromDeps { "&'d D" } else if spec.ret == Ret::FromElidedArg { "&'x D" } else { "&D" };
        let send = if want_send { "    is_send(&fut);\n" } else { "" };
        let mut ps_src = ps_src.replace(", a: &str", ", a: &'a str");
        // (the witness is no `async fn`: it has to name what the fn may leave anonymous)
        if ps_src.contains(ANON_ITER) {
            ps_src = ps_src.replace(ANON_ITER, "impl Iterator<Item = &'w str> + Send");
            g.insert(g.len() - 1, "'w".into());
        }
        format!(
            "fn witness<{}>(d: {recv}{ps_src}) {{\n    let fut = d.{method}({arg_names});\n    let _: PhantomData<{}> = out(&fut);\n{send}}}\n",
            g.join(", "),
            spec.ret_ty("'a")
        )
    };
    let want_send_witness = match negative {
        Some("is_send_under_maybe_send") => true,
        _ => !spec.no_send,
    };
    match spec.kind {
        Kind::Fn | Kind::Mod => {
            let mut g: Vec<String> = lts.iter().map(|s| s.to_string()).collect();
            let deps_param = if spec.no_deps {
                String::new()
            } else if spec.concrete {
                "deps: &Conf".to_string()
            } else {
                g.push("D".into());
                "deps: &D".to_string()
            };
            if ret_is_gen {
                g.push("T: Default + Send + Sync".into());
            }
            let gs = if g.is_empty() { String::new() } else { format!("<{}>", g.join(", ")) };
            let f = format!("async fn the_fn{gs}({deps_param}{}){} {}", if spec.no_deps { ps_src.trim_start_matches(", ") } else { ps_src.as_str() }, spec.ret_decl(), spec.body("deps", hold_rc));
            let attr = format!("#[::entrait::entrait(pub TheTrait{}{opt})]", if spec.no_deps { ", no_deps" } else { "" });
            if spec.kind == Kind::Mod {
                src.push_str(&format!("{attr}\npub mod m {{\n    use super::*;\n    pub {}\n    pub fn other({}) -> i32 {{ 1 }}\n}}\nuse m::the_fn;\n", f.replace('\n', "\n    "), if spec.no_deps { "" } else { "_deps: &impl Sized" }));
            } else {
                src.push_str(&format!("{attr}\n{f}\n"));
            }
            src.push_str(&witness("TheTrait", "the_fn", want_send_witness, ""));
            let (mk, recv_direct) = if spec.concrete { ("Conf { name: String::from(\"cn\") }", "&app") } else { ("::entrait::Impl::new(App { name: String::from(\"an\") })", "&app") };
            let tf = if ret_is_gen { "::<_, i64>" } else { "" };
            let tf = if ret_is_gen && (spec.concrete || spec.no_deps) { "::<i64>" } else { tf };
            let recv_direct = if spec.no_deps { String::new() } else { format!("{recv_direct}, ") };
            let tfish = if ret_is_gen { "::<i64>" } else { "" };
            src.push_str(&format!(
                "pub fn run() -> Vec<String> {{\n    let mut fails = vec![];\n    let app = {mk};\n    let _ = rt::take();\n    let direct = format!(\"{{:?}}\", rt::block_on(the_fn{tf}({recv_direct}{vals})));\n    let t_direct = rt::take();\n    let via = format!(\"{{:?}}\", rt::block_on(TheTrait{tfish}::the_fn(&app, {vals})));\n    rt::expect_eq(&mut fails, \"awaited result of the trait method vs the fn\", &via, &direct);\n    let t_via = rt::take();\n    rt::expect_eq(&mut fails, \"the body ran to completion exactly once (trace)\", &t_via, &t_direct);\n    if t_direct.len() != 1 {{ fails.push(String::from(\"HARNESS: direct call did not run the body once\")); }}\n    fails\n}}\n"
            ));
            summary = format!("{attr} {}", f.lines().next().unwrap_or(""));
        }
        Kind::TraitStatic | Kind::TraitDynAsyncTrait => {
            let dynamic = spec.kind == Kind::TraitDynAsyncTrait;
            let at_owned = if dynamic { format!("{}\n", AT_SPELLINGS[spec.at_spelling % 4]) } else { String::new() };
            let at = at_owned.as_str();
            if dynamic {
                src.push_str(AT_PRELUDE);
            }
            let attr = if dynamic { format!("#[::entrait::entrait(delegate_by = ref{opt})]") } else { format!("#[::entrait::entrait({})]", opt.trim_start_matches(", ")) };
            let lt = if lts.is_empty() { String::new() } else { "<'a>".to_string() };
            let sup = if dynamic { ": Sync + 'static" } else { "" };
            let msig = format!("async fn m{lt}(&self{ps_src}){}", spec.ret_decl());
            let dflt_decl = if spec.dflt && !dynamic {
                src.push_str("use ::core::sync::atomic::{AtomicUsize, Ordering::SeqCst};\npub static DROPPED: AtomicUsize = AtomicUsize::new(0);\npub struct Guard;\nimpl Drop for Guard { fn drop(&mut self) { DROPPED.fetch_add(1, SeqCst); } }\npub struct GS { pub g: Guard, pub v: u8 }\n");
                "    async fn keeps(&self, _g: Guard, (a, mut b): (u8, u8), (c, _h): (u8, Guard), pair: (Guard, u8), GS { g: _sg, v }: GS) -> usize { b += a + c + pair.1 + v; let f = |_g: u8| _g; let _ = f(b); rt::yield_once().await; DROPPED.load(SeqCst) }\n    async fn boxed(&self, x: i32) -> Box<dyn ::core::fmt::Debug + Send> { Box::new((x, 7u8)) }\n    async fn opt_iter(&self, n: u8) -> Option<impl Iterator<Item = u8> + Send> { Some((0..n).into_iter()) }\n    async fn early(&self, c: bool) -> Box<dyn ::core::fmt::Debug + Send> { if c { return Box::new(1u8); } Box::new(\"late\") }\n    async fn early_impl(&self, e: bool) -> Result<impl ::core::fmt::Debug + Send, Box<dyn ::core::fmt::Debug + Send>> { if e { return Err(Box::new(2u8)); } Ok(1u8) }\n"
            } else {
                ""
            };
            src.push_str(&format!("{attr}\n{at}pub trait Tr{sup} {{\n    {msig};\n{dflt_decl}}}\n"));
            src.push_str(&format!("pub struct Rec {{ pub name: String }}\n{at}impl Tr for Rec {{\n    {msig} {}\n}}\n", spec.body("self", hold_rc).replace('\n', "\n    ")));
            if dynamic {
                src.push_str("pub struct DApp { pub rec: Rec }\nimpl AsRef<dyn Tr> for DApp { fn as_ref(&self) -> &(dyn Tr + 'static) { &self.rec } }\n");
                // the trait must be usable as `dyn`: only true if async_trait was re-applied to it
                src.push_str("fn use_dyn(d: &dyn Tr) -> bool { let _ = d; true }\n");
                src.push_str(&format!(
                    "pub fn run() -> Vec<String> {{\n    let mut fails = vec![];\n    let app = ::entrait::Impl::new(DApp {{ rec: Rec {{ name: String::from(\"rn\") }} }});\n    let _ = rt::take();\n    let direct = format!(\"{{:?}}\", rt::block_on(Tr::m(&app.rec, {vals})));\n    let t_direct = rt::take();\n    let via = format!(\"{{:?}}\", rt::block_on(Tr::m(&app, {vals})));\n    rt::expect_eq(&mut fails, \"awaited result through Impl<T> vs the provider\", &via, &direct);\n    let _ = use_dyn(&app.rec);\n    let t_via = rt::take();\n    rt::expect_eq(&mut fails, \"the body ran to completion exactly once (trace)\", &t_via, &t_direct);\n    if t_direct.len() != 1 {{ fails.push(String::from(\"HARNESS: direct call did not run the body once\")); }}\n    fails\n}}\n"
                ));
            } else {
                src.push_str(&witness("Tr", "m", want_send_witness, ""));
                src.push_str(&format!(
                    "pub fn run() -> Vec<String> {{\n    let mut fails = vec![];\n    let app = ::entrait::Impl::new(Rec {{ name: String::from(\"rn\") }});\n    let _ = rt::take();\n    let direct = format!(\"{{:?}}\", rt::block_on(Tr::m(&*app, {vals})));\n    let t_direct = rt::take();\n    let via = format!(\"{{:?}}\", rt::block_on(Tr::m(&app, {vals})));\n    rt::expect_eq(&mut fails, \"awaited result through Impl<T> vs the provider\", &via, &direct);\n    let t_via = rt::take();\n    rt::expect_eq(&mut fails, \"the body ran to completion exactly once (trace)\", &t_via, &t_direct);\n    if t_direct.len() != 1 {{ fails.push(String::from(\"HARNESS: direct call did not run the body once\")); }}\n@DFLT@    fails\n}}\n"
                ));
                let dflt_run = if spec.dflt {
                    "    for through_impl in [false, true] {\n        DROPPED.store(0, SeqCst);\n        let before;\n        let r;\n        if through_impl { let fut = Tr::keeps(&app, Guard, (1, 2), (3, Guard), (Guard, 4), GS { g: Guard, v: 5 }); before = DROPPED.load(SeqCst); r = rt::block_on(fut); } else { let fut = Tr::keeps(&*app, Guard, (1, 2), (3, Guard), (Guard, 4), GS { g: Guard, v: 5 }); before = DROPPED.load(SeqCst); r = rt::block_on(fut); }\n        rt::expect_eq(&mut fails, \"defaulted async method: its by-value arguments (unused, an unused part of a destructured one, one of which only a field is used, one whose name the body uses for something else, an unused field of a struct pattern) are alive until the future has run (number dropped before the first poll, number dropped while the body runs)\", &(before, r), &(0, 0));\n        if DROPPED.load(SeqCst) != 4 { fails.push(format!(\"HARNESS: {} guards were dropped, not 4\", DROPPED.load(SeqCst))); }\n    }\n    rt::expect_eq(&mut fails, \"defaulted async method returning a boxed trait object\", &format!(\"{:?}\", rt::block_on(Tr::boxed(&app, 5))), &String::from(\"(5, 7)\"));\n    rt::expect_eq(&mut fails, \"defaulted async method returning an `impl Trait` nested in another type\", &rt::block_on(Tr::opt_iter(&app, 3)).map(|i| i.count()), &Some(3usize));\n    rt::expect_eq(&mut fails, \"defaulted async method with an early `return` that is coerced to the declared type\", &format!(\"{:?}/{:?}\", rt::block_on(Tr::early(&app, true)), rt::block_on(Tr::early(&app, false))), &String::from(\"1/\\\"late\\\"\"));\n    rt::expect_eq(&mut fails, \"defaulted async method whose return type has an `impl Trait` inside, with an early `return` that is coerced to the rest of it\", &format!(\"{:?}/{:?}\", rt::block_on(Tr::early_impl(&app, true)), rt::block_on(Tr::early_impl(&app, false))), &String::from(\"Err(2)/Ok(1)\"));\n"
                } else {
                    ""
                };
                src = src.replace("@DFLT@", dflt_run);
            }
            summary = format!("{attr} {}trait Tr{sup} {{ {msig};{} }}", at.trim(), if spec.dflt && !dynamic { " async fn keeps(&self, _g: Guard, (a, mut b): (u8, u8), (c, _h): (u8, Guard), pair: (Guard, u8), GS { g: _sg, v }: GS) -> usize { .. } async fn boxed(&self, x: i32) -> Box<dyn Debug + Send> { Box::new(..) } async fn opt_iter(&self, n: u8) -> Option<impl Iterator<Item = u8> + Send> { .. } async fn early(&self, c: bool) -> Box<dyn Debug + Send> { if c { return Box::new(1u8); } .. } async fn early_impl(&self, e: bool) -> Result<impl Debug + Send, Box<dyn Debug + Send>> { if e { return Err(Box::new(2u8)); } Ok(1u8) }" } else { "" });
        }
        Kind::ImplBlockDyn => {
            let lt = if lts.is_empty() { String::new() } else { "'a, ".to_string() };
            let msig_trait = format!("async fn m{}(&self{ps_src}){}", if lts.is_empty() { "" } else { "<'a>" }, spec.ret_decl());
            let attr = "#[::entrait::entrait(TrImpl, delegate_by = ref)]".to_string();
            src.push_str("pub trait HasName { fn name_ref(&self) -> &str; }\nimpl HasName for ::entrait::Impl<App> { fn name_ref(&self) -> &str { self.name.as_str() } }\n");
            let at = AT_SPELLINGS[spec.at_spelling % 4];
            src.push_str(AT_PRELUDE);
            src.push_str(&format!("{attr}\n{at}\npub trait Tr {{\n    {msig_trait};\n}}\n"));
            src.push_str(&format!(
                "pub struct X;\n#[::entrait::entrait(ref)]\n{at}\nimpl TrImpl for X {{\n    pub async fn m<{lt}D: HasName + Sync>(deps: &D{ps_src}){} {}\n}}\n",
                spec.ret_decl(),
                spec.body("NOPE", hold_rc).replace("NOPE.name.as_str()", "deps.name_ref()").replace('\n', "\n    ")
            ));
            src.push_str("impl AsRef<dyn TrImpl<Self> + Sync> for App { fn as_ref(&self) -> &(dyn TrImpl<Self> + Sync + 'static) { &X } }\n");
            src.push_str(&format!(
                "pub fn run() -> Vec<String> {{\n    let mut fails = vec![];\n    let app = ::entrait::Impl::new(App {{ name: String::from(\"an\") }});\n    let _ = rt::take();\n    let direct = format!(\"{{:?}}\", rt::block_on(X::m(&app, {vals})));\n    let t_direct = rt::take();\n    let via = format!(\"{{:?}}\", rt::block_on(Tr::m(&app, {vals})));\n    rt::expect_eq(&mut fails, \"awaited result through Impl<T> vs the implementation block\", &via, &direct);\n    let t_via = rt::take();\n    rt::expect_eq(&mut fails, \"the body ran to completion exactly once (trace)\", &t_via, &t_direct);\n    if t_direct.len() != 1 {{ fails.push(String::from(\"HARNESS: direct call did not run the body once\")); }}\n    fails\n}}\n"
            ));
            summary = format!("{attr} #[async_trait] trait Tr {{ {msig_trait}; }} + #[entrait(ref)] #[async_trait] impl TrImpl for X");
        }
        Kind::ImplBlock => {
            let lt = if lts.is_empty() { String::new() } else { "'a, ".to_string() };
            let msig_trait = format!("async fn m{}(&self{ps_src}){}", if lts.is_empty() { "" } else { "<'a>" }, spec.ret_decl());
            let attr = format!("#[::entrait::entrait(TrImpl, delegate_by = DelegateTr{opt})]");
            src.push_str("pub trait HasName { fn name_ref(&self) -> &str; }\nimpl HasName for ::entrait::Impl<App> { fn name_ref(&self) -> &str { self.name.as_str() } }\n");
            src.push_str(&format!("{attr}\npub trait Tr {{\n    {msig_trait};\n}}\n"));
            src.push_str(&format!(
                "pub struct X;\n#[::entrait::entrait]\nimpl TrImpl for X {{\n    pub async fn m<{lt}D: HasName + Sync>(deps: &D{ps_src}){} {}\n}}\n",
                spec.ret_decl(),
                spec.body("NOPE", hold_rc).replace("NOPE.name.as_str()", "deps.name_ref()").replace('\n', "\n    ")
            ));
            src.push_str("impl DelegateTr<Self> for App { type Target = X; }\n");
            src.push_str(&witness("Tr", "m", want_send_witness, ""));
            src.push_str(&format!(
                "pub fn run() -> Vec<String> {{\n    let mut fails = vec![];\n    let app = ::entrait::Impl::new(App {{ name: String::from(\"an\") }});\n    let _ = rt::take();\n    let direct = format!(\"{{:?}}\", rt::block_on(X::m(&app, {vals})));\n    let t_direct = rt::take();\n    let via = format!(\"{{:?}}\", rt::block_on(Tr::m(&app, {vals})));\n    rt::expect_eq(&mut fails, \"awaited result through Impl<T> vs the implementation block\", &via, &direct);\n    let t_via = rt::take();\n    rt::expect_eq(&mut fails, \"the body ran to completion exactly once (trace)\", &t_via, &t_direct);\n    if t_direct.len() != 1 {{ fails.push(String::from(\"HARNESS: direct call did not run the body once\")); }}\n    fails\n}}\n"
            ));
            summary = format!("{attr} trait Tr {{ {msig_trait}; }} + #[entrait] impl TrImpl for X");
        }
    }
    (src, summary)
}

pub fn gen_cases(t: &mut Tape) -> Vec<Case> {
    let kind = [Kind::Fn, Kind::Fn, Kind::Mod, Kind::TraitStatic, Kind::TraitDynAsyncTrait, Kind::ImplBlock, Kind::ImplBlockDyn][t.choose(7)];
    let concrete = matches!(kind, Kind::Fn) && t.chance(1, 4);
    let mut rets = vec![Ret::Unit, Ret::Owned, Ret::FromArg];
    if matches!(kind, Kind::Fn | Kind::Mod) && !concrete {
        rets.push(Ret::Gen);
    }
    if concrete || matches!(kind, Kind::TraitStatic | Kind::TraitDynAsyncTrait | Kind::ImplBlock | Kind::ImplBlockDyn) {
        rets.push(Ret::FromDeps);
    }
    let no_deps = matches!(kind, Kind::Fn | Kind::Mod) && !concrete && t.chance(1, 4);
    if no_deps {
        rets.push(Ret::FromElidedArg);
        rets.push(Ret::FromElidedArg);
    }
    let ret = rets[t.choose(rets.len())];
    // `?Send` is meaningless together with async_trait (async_trait has its own `?Send` argument)
    let no_send = !matches!(kind, Kind::TraitDynAsyncTrait | Kind::ImplBlockDyn) && t.chance(1, 3);
    let arg_tys: Vec<&'static str> = (0..4).map(|_| *t.pick(&["i32", "u8", "bool", "String"])).collect();
    let mut arg_tys = arg_tys;
    let mut n_args = t.range(1, 4);
    let anon_iter = matches!(kind, Kind::Fn | Kind::Mod) && !matches!(ret, Ret::FromElidedArg | Ret::FromDeps) && t.chance(1, 3);
    if anon_iter {
        arg_tys[1] = ANON_ITER;
        n_args = n_args.max(2);
    }
    let spec = Spec { arg_tys, kind, ret, no_send, n_args, concrete, at_spelling: t.choose(4), no_deps, dflt: kind == Kind::TraitStatic && t.chance(1, 3) };
    let mut classes: Vec<&'static str> = vec![match kind {
        Kind::Fn => "fn",
        Kind::Mod => "mod",
        Kind::TraitStatic => "trait_static",
        Kind::TraitDynAsyncTrait => "trait_dyn_async_trait",
        Kind::ImplBlockDyn => "impl_block_dyn_async_trait",
        Kind::ImplBlock => "impl_block",
    }];
    classes.push(match ret {
        Ret::Unit => "ret:unit_omitted",
        Ret::Owned => "ret:owned",
        Ret::FromArg => "ret:borrowed_from_arg",
        Ret::FromDeps => "ret:borrowed_from_deps",
        Ret::Gen => "ret:generic",
        Ret::FromElidedArg => "ret:borrowed_from_elided_arg(no_deps)",
    });
    if no_deps {
        classes.push("no_deps");
    }
    if anon_iter {
        classes.push("anonymous_lifetime_in_an_argument_position_impl_trait");
    }
    if spec.dflt {
        classes.push("defaulted_async_methods(unused_argument_with_destructor,unsized_coercion)");
    }
    if no_send {
        classes.push("?Send");
    }
    let nontrivial = matches!(ret, Ret::FromArg | Ret::FromDeps | Ret::Gen | Ret::FromElidedArg) || no_send || matches!(kind, Kind::TraitDynAsyncTrait | Kind::TraitStatic | Kind::ImplBlock | Kind::ImplBlockDyn);
    let (src, summary) = build(&spec, None);
    let mut out = vec![Case { src, positive: true, summary: summary.clone(), nontrivial, classes: classes.clone() }];
    // negative probes (async_trait traits have their own Send story: not probed)
    if !matches!(kind, Kind::TraitDynAsyncTrait | Kind::ImplBlockDyn) && t.chance(1, 3) {
        if no_send {
            let (src, _) = build(&spec, Some("is_send_under_maybe_send"));
            let mut c = classes.clone();
            c.push("negative:is_send_witness_under_?Send");
            out.push(Case { src, positive: false, summary: format!("[must be rejected: generic is_send witness under ?Send] {summary}"), nontrivial: true, classes: c });
        } else {
            let (src, _) = build(&spec, Some("rc_without_maybe_send"));
            let mut c = classes.clone();
            c.push("negative:rc_across_await_without_?Send");
            out.push(Case { src, positive: false, summary: format!("[must be rejected: Rc held across an await without ?Send] {summary}"), nontrivial: true, classes: c });
        }
    }
    out
}

/// `async_trait` below entrait: every generated trait and impl carries the attribute and keeps `async fn`
fn check_async_trait_records(records: &[Record]) -> Result<usize, String> {
    let mut n = 0;
    for r in records {
        let Some(out) = &r.output else { continue };
        let mut ids = vec![];
        crate::tok::idents(&r.input, &mut ids);
        if !ids.iter().any(|i| i == "async_trait") || !ids.iter().any(|i| i == "async") {
            continue;
        }
        // token scan: every `trait`/`impl` keyword at top level must be preceded (among its attributes) by an async_trait attribute
        let toks = out;
        let mut i = 0;
        let mut pending_attrs: Vec<bool> = vec![];
        while i < toks.len() {
            match &toks[i] {
                crate::tok::Tok::Punct('#') => {
                    if let Some(crate::tok::Tok::Group('[', inner)) = toks.get(i + 1) {
                        let mut a = vec![];
                        crate::tok::idents(inner, &mut a);
                        pending_attrs.push(a.iter().any(|x| x == "async_trait"));
                        i += 2;
                        continue;
                    }
                }
                crate::tok::Tok::Ident(k) if k == "trait" || k == "impl" => {
                    // does the item contain async fns?
                    let body = toks[i..].iter().find_map(|t| if let crate::tok::Tok::Group('{', b) = t { Some(b) } else { None });
                    let has_async = body.map(|b| crate::tok::count_ident(b, "async") > 0).unwrap_or(false);
                    let has_future_rewrite = body.map(|b| crate::tok::count_ident(b, "Future") > 0).unwrap_or(false);
                    if has_future_rewrite {
                        return Err(format!("async_trait input: a generated `{k}` rewrote `async fn` into `impl Future` in `{}`", crate::props::c20::truncate(&crate::tok::render(&r.input), 200)));
                    }
                    // an inherent `impl X { .. }` is the user's own block (async_trait is moved from it to the generated trait impl)
                    let header_end = toks[i..].iter().position(|t| matches!(t, crate::tok::Tok::Group('{', _))).map(|p| i + p).unwrap_or(toks.len());
                    let inherent_impl = k == "impl" && !toks[i..header_end].iter().any(|t| *t == crate::tok::Tok::Ident("for".into()));
                    if has_async && !inherent_impl && !pending_attrs.iter().any(|b| *b) {
                        return Err(format!("async_trait input: a generated `{k}` with async fns lacks the async_trait attribute, for `{}`", crate::props::c20::truncate(&crate::tok::render(&r.input), 200)));
                    }
                    // skip to the end of the item (its brace group)
                    while i < toks.len() && !matches!(toks[i], crate::tok::Tok::Group('{', _)) {
                        i += 1;
                    }
                    pending_attrs.clear();
                    n += 1;
                }
                crate::tok::Tok::Punct(';') => pending_attrs.clear(),
                _ => {}
            }
            i += 1;
        }
    }
    Ok(n)
}

fn run_single(name: &str, src: &str) -> Result<(String, String), String> {
    let mut b = Batch::new(name, Opts { feature_unimock: false, members: 1, ..Default::default() });
    b.add("c00000", src.to_string());
    let out = b.build_and_run();
    b.cleanup();
    if let Some(d) = out.compile_failed.values().next() {
        return Err(d.first().map(|x| format!("{} {}", x.code, x.message)).unwrap_or_default());
    }
    out.ran.get("c00000").cloned().ok_or_else(|| "no result".to_string())
}

/// deterministic part: async methods of an entraited trait that take `self` by value (default delegation), with and without
/// `?Send`, next to `&self` / `self: &Self` ones; the future through `Impl<T>` is Send exactly when `?Send` is absent
fn by_value_lattice() -> Vec<Case> {
    let mut out = vec![];
    for (opt, maybe_send) in [("", false), ("?Send", true)] {
        for with_ref_methods in [false, true] {
            let refs_decl = if with_ref_methods { "    async fn peek(&self, x: u64) -> u64;\n    async fn typed(self: &Self, x: u64) -> u64;\n" } else { "" };
            let refs_impl = if with_ref_methods { "    async fn peek(&self, x: u64) -> u64 { rt::yield_once().await; x + 10 }\n    async fn typed(self: &Self, x: u64) -> u64 { rt::yield_once().await; x + 20 }\n" } else { "" };
            let rc = if maybe_send { "let __rc = Rc::new(5u64); " } else { "" };
            let use_rc = if maybe_send { "let _ = *__rc; " } else { "" };
            let send_witness = if maybe_send { "" } else { "    is_send(&Bv::consume(::entrait::Impl::new(P), 1));\n" };
            let refs_run = if with_ref_methods { "    let r = rt::block_on(Bv::peek(&::entrait::Impl::new(P), 1)) + rt::block_on(Bv::typed(&::entrait::Impl::new(P), 1));\n    rt::expect_eq(&mut fails, \"reference-receiver methods next to a by-value one\", &r, &32u64);\n" } else { "" };
            let src = format!(
                "{HEADER}#[::entrait::entrait({opt})]\npub trait Bv {{\n    async fn consume(self, x: u64) -> u64;\n{refs_decl}}}\n#[derive(Clone, Copy)] pub struct P;\nimpl Bv for P {{\n    async fn consume(self, x: u64) -> u64 {{ {rc}rt::yield_once().await; {use_rc}rt::trace(String::from(\"BODY\")); x + 1 }}\n{refs_impl}}}\n\
                 pub fn run() -> Vec<String> {{\n    let mut fails = vec![];\n    let _ = rt::take();\n    let direct = rt::block_on(Bv::consume(P, 5));\n    let t_direct = rt::take();\n    let via = rt::block_on(Bv::consume(::entrait::Impl::new(P), 5));\n    let t_via = rt::take();\n    rt::expect_eq(&mut fails, \"awaited result of a by-value method through Impl<T> vs the provider\", &via, &direct);\n    rt::expect_eq(&mut fails, \"the body ran to completion exactly once (trace)\", &t_via, &t_direct);\n{send_witness}{refs_run}    fails\n}}\n"
            );
            let summary = format!("#[entrait({opt})] trait Bv {{ async fn consume(self, x: u64) -> u64;{} }}", if with_ref_methods { " async fn peek(&self, ..); async fn typed(self: &Self, ..);" } else { "" });
            out.push(Case { src, positive: true, summary, nontrivial: true, classes: vec!["trait_by_value_receiver", if maybe_send { "?Send" } else { "send_by_default" }] });
        }
    }
    out
}

pub const TAPE_LEN: usize = 32;

pub fn run(ctx: &mut Ctx) {
    ctx.rule = "cases = async fn / module fn / entraited trait (static, and dynamic with async_trait) / impl-block inputs x return type {omitted unit, owned, borrowed from an argument, borrowed \
                from deps/self, generic} x {default, ?Send}; positive programs hold compile-time witnesses (is_send on the method's future inside a fn generic over `D: Trait + Sync`, exact \
                Future::Output ascription, Rc-across-await bodies under ?Send, `&dyn Trait` use for async_trait) and are run to completion against the direct call; negative programs (Rc across an \
                await without ?Send; the is_send witness under ?Send) must be rejected by rustc and are re-compiled alone before being believed; non-trivial = borrowed/generic return, ?Send, \
                trait or impl-block input, or a negative probe; distinct = distinct program text. Deterministic part: entraited traits whose async method takes `self` by value (x {default, ?Send} x {alone, next to `&self` / `self: &Self` methods})"
        .into();
    let n = ctx.n(1000, 8000) as usize;
    let tapes = crate::drive::gen_tapes(ctx.seed, 1200, n, TAPE_LEN);
    let mut cases: Vec<Case> = vec![];
    for tp in &tapes {
        cases.extend(gen_cases(&mut Tape::new(tp)));
    }
    cases.extend(by_value_lattice());
    let mut batch = Batch::new("c12", Opts { feature_unimock: false, members: 16, ..Default::default() });
    for (i, c) in cases.iter().enumerate() {
        batch.add(&format!("c{i:05}"), c.src.clone());
    }
    let out = batch.build_and_run();
    batch.cleanup();
    super::common::crosscheck_records(ctx, &out.records);
    match check_async_trait_records(&out.records) {
        Ok(n) => {
            ctx.extra.insert("async_trait_generated_items_inspected".into(), json!(n));
        }
        Err(e) if e.starts_with("HARNESS") => crate::ev::inconclusive(&e),
        Err(e) => {
            ctx.violation(&e, &json!({"engine": "E2", "kind": "async_trait_record"}));
            return;
        }
    }
    for (i, case) in cases.iter().enumerate() {
        let id = format!("c{i:05}");
        ctx.count_eval();
        for c in &case.classes {
            ctx.class(c);
        }
        let compiled = !out.compile_failed.contains_key(&id);
        match (case.positive, compiled) {
            (true, true) => {
                let (status, msg) = out.ran.get(&id).cloned().unwrap_or(("missing".into(), String::new()));
                if status != "ok" {
                    ctx.violation(
                        &format!("async method did not run to the same result as the original ({status}): {msg} -- in {}", case.summary),
                        &json!({"engine": "E2", "src": case.src, "summary": case.summary, "expect": "ok"}),
                    );
                    return;
                }
            }
            (true, false) => {
                let d = &out.compile_failed[&id];
                ctx.violation(
                    &format!(
                        "a positive async witness program does not compile (Output type / Send bound / ?Send / async_trait not as stated): {} -- in {}",
                        d.first().map(|x| format!("{} {}", x.code, x.message)).unwrap_or_default(),
                        case.summary
                    ),
                    &json!({"engine": "E2", "src": case.src, "summary": case.summary, "expect": "ok"}),
                );
                return;
            }
            (false, false) => {}
            (false, true) => {
                // re-compile alone before believing that a must-fail probe compiles
                if run_single("c12-confirm", &case.src).is_ok() {
                    ctx.violation(
                        &format!("a program that must be rejected compiles: {}", case.summary),
                        &json!({"engine": "E2", "src": case.src, "summary": case.summary, "expect": "rejected"}),
                    );
                    return;
                }
            }
        }
        if case.nontrivial {
            ctx.nontrivial(&case.src);
            ctx.sample(|| json!(case.summary));
        }
    }
}

pub fn replay(ctx: &mut Ctx, v: &Value) {
    ctx.count_eval();
    let r = run_single("c12-replay", &super::s(v, "src"));
    match (super::s(v, "expect").as_str(), r) {
        ("rejected", Ok(_)) => ctx.violation("a program that must be rejected compiles", v),
        ("rejected", Err(_)) => {}
        (_, Err(e)) => ctx.violation(&format!("positive async witness program does not compile: {e}"), v),
        (_, Ok((st, msg))) => {
            if st != "ok" {
                ctx.violation(&format!("async method did not run to the same result: {msg}"), v);
            }
        }
    }
}
