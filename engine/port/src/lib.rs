#![allow(warnings)]
include!(concat!(env!("OUT_DIR"), "/lib_port.rs"));
