//! Shared case generators.

use crate::e1;
use crate::gen::{self, TraitGenCfg};
use crate::tape::Tape;

#[derive(Clone, Debug, PartialEq, Eq, Hash)]
pub struct Invocation {
    pub macro_name: String,
    pub attr: String,
    pub item: String,
    pub mode: &'static str,
}

pub fn rich_trait_cfg() -> TraitGenCfg {
    TraitGenCfg {
        ref_self_only: true,
        patterns: true,
        default_bodies: true,
        assoc_types: true,
        other_items: false,
        unsafety: true,
        trait_attrs: true,
        method_attrs: true,
        generics: true,
        async_methods: true,
    }
}

/// A mostly-accepted invocation in any of the four modes.
pub fn gen_invocation(t: &mut Tape) -> Invocation {
    match t.weighted(&[6, 3, 1]) {
        0 => {
            let c = super::c02::gen_case(t, true);
            Invocation { macro_name: c.macro_name, attr: c.attr, item: c.item, mode: c.mode }
        }
        1 => {
            let macro_name = e1::MACROS[t.weighted(&[5, 2, 2, 1])].to_string();
            let tr = gen::gen_trait(t, "Tr", &rich_trait_cfg());
            Invocation { macro_name, attr: gen::gen_trait_attr(t), item: tr.render(), mode: "trait" }
        }
        _ => {
            let known = super::c15::Known { raw_fn_name_conflict: true, trait_patterns: true };
            let c = super::c15::gen_case(t, &known);
            Invocation { macro_name: c.macro_name, attr: c.attr, item: c.item, mode: "any" }
        }
    }
}
