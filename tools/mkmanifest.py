#!/usr/bin/env python3
"""Writes /verif/MANIFEST.json from the table below and validates it against the schema."""
import json, sys, os
ROOT = os.path.dirname(os.path.dirname(os.path.abspath(__file__)))

CHECKS = {
 "C01": dict(
    technique="property-based differential testing of compiled client programs: direct call vs generated-trait call, compared on result, call trace (fn tag, receiver identity, arguments) and &mut arguments",
    engine="E2",
    text="Generated programs (entraited fns and modules over a typed parameter/pattern/deps/option grammar, both cargo feature settings) are compiled by rustc against the working tree and run; every fn is called directly and through its generated trait on the same receiver with pairwise-distinct argument values, and results, one-entry traces and &mut arguments must agree. 2x300 programs quick / 2x6000 thorough; failures are shrunk on the choice tape with single-program rebuilds.",
    note="Trusts rustc and the direct call as reference semantics; programs that fail to compile are counted and left to C03 (run inconclusive above 5%); mock derivations are only made active (exported) inside the conservative type alphabet unimock/mockall are known to accept.",
    design="§2 C01"),
 "C02": dict(
    technique="property-based testing: grammar-generated fn/mod/impl inputs through the in-process macro, exact token-prefix oracle, proptest shrinking",
    engine="E1+E2",
    text="Generated-input search (60k quick / 1M thorough cases per run) with an exact two-directional token oracle: the annotated fn must be the literal prefix of the expansion, module items the literal prefix of the emitted module body, impl-block items the literal body of the emitted inherent impl. Exploration, not proof: it establishes the property on every generated program and shrinks any counterexample to a replay file.",
    note="Trusts proc_macro2's fallback lexer/printer to agree with rustc's (cross-checked by the E2 recorder leg) and that the mechanical port of lib.rs (engine/port/build.rs) follows the working tree; inputs that the macro rejects are outside the quantifier.",
    design="§2 C02"),
 "C10": dict(
    technique="exhaustive enumeration of the option/feature/target lattice against a truth table written from the statement: in-process attribute inspection (3 option orders per point) plus four facade builds (feature x cfg(test)) with run-time probes",
    engine="E1+E2",
    text="All 1152 points of {entrait, entrait_export} x feature x unimock{absent,bare,=true,=false} x mock_api x mockall{absent,bare,=true,=false} x export{absent,bare,=true,=false; fn/mod} x {fn, mod, trait} are checked twice: E1 reads the mock attributes on the emitted trait (present? wrapped in cfg_attr(test, ..)?), E2 compiles every point through the facade in four builds and observes the consequence at run time (named unimock API / `Unimock: Trait`, the mockall struct) = emitted && (exported || cfg(test)); the recorder confirms which macro variant the facade dispatched to. Complete in the quick tier (about 40 s).",
    note="With the feature off an active unimock derivation cannot compile (`::entrait::__unimock` is absent): that compile error is the expected observation there. unimock without a named API is observable only on traits with the feature on.",
    design="§2 C10"),
 "C11": dict(
    technique="property-based testing of compiled clients against the real unimock crate: clause matching in declared vs permuted order, partial-mock differential (trait call on Unimock vs original fn on &Unimock), panic expectations",
    engine="E2",
    text="With the unimock feature on, generated exported mockable fns / modules / entraited traits (arity 0..5 over literal-matchable types biased to equal neighbours, sync/async, generic/impl/no_deps/concrete deps, same-signature module fns) are compiled and run: the API must be nameable as requested; a clause with the call's values in declared order answers while one with permuted values must not match; on Unimock::new_partial(()) the un-mocked call must equal the original fn called with &Unimock (result and trace with per-fn tags); concrete-deps fns and entraited traits must panic instead. 250 programs quick / 4000 thorough.",
    note="Parameter types are limited to what `matching!` can express as literals; unimock 0.6.8's own behaviour (each_call, new_partial, panics) is trusted.",
    design="§2 C11"),
 "C12": dict(
    technique="property-based testing of compile verdicts, positive and negative: model-derived Send/Output witnesses generic over the implementor, must-fail probes confirmed in isolation, differential run to completion, recorder inspection for async_trait",
    engine="E2",
    text="Generated async fn / module fn / entraited trait (static; dynamic with async_trait) / impl-block inputs over return types {omitted unit, owned, borrowed from argument, borrowed from deps/self, generic} x {default, ?Send}. Positive programs must compile and run: is_send on the method's future inside `fn w<D: Trait + Sync>`, exact Future::Output ascription, Rc-across-await bodies under ?Send, `&dyn Trait` for async_trait, awaited result equal to the direct call. Negative programs must be rejected (Rc across await without ?Send; is_send witness under ?Send) and are recompiled alone before being believed. Recorded expansions of async_trait inputs must keep `async fn` and carry the attribute on every generated trait/impl. 300 inputs (+ about 100 negative probes) quick / 5000 thorough.",
    note="The input space is small by nature (a few hundred distinct programs); negative facts are sampled, not proved. async_trait's own `?Send` is outside the statement.",
    design="§2 C12"),
 "C13": dict(
    technique="exhaustive enumeration of a small visibility lattice as compiled positive/negative access probes; expected verdict from Rust's visibility rules applied to the spec",
    engine="E2",
    text="All 156 points of {fn x 5 requested visibilities x 3 fn visibilities, mod x 3 x 2, trait (delegation-target trait) x 5} x 6 access sites inside a nested module tree are compiled as one probe each: naming the trait must succeed exactly where the requested visibility allows it, and must be rejected with a privacy/resolution error everywhere else (a 'compiles' on a must-fail probe is confirmed in isolation). Complete in the quick tier.",
    note="Exhaustive for the stated lattice only; the other-crate site is not built (pub vs pub(crate) are distinguished by no probe); module mode with pub(super)/pub(in) is a documented don't-care.",
    design="§2 C13"),
 "C14": dict(
    technique="property-based differential testing with a counting global allocator: generated trait call chains vs mirror chains of plain fns; token scan of recorded expansions for dyn/Box",
    engine="E2",
    text="Generated call chains (depth 1..6, async prefix, single and module fns, ending in an entraited fn, a statically delegated leaf trait or a statically delegated impl block) whose bodies allocate a known number of times are compiled and run with a counting #[global_allocator]; allocations and results of the trait chain must equal those of a mirror chain of plain fns (after warm-up). Every recorded real expansion is scanned: no `dyn`/`Box` token that the input lacks. 300 programs quick / 5000 thorough.",
    note="Detects heap allocation and dyn/Box tokens, not every conceivable dynamic dispatch (e.g. fn pointers); debug builds, so neither side is optimised.",
    design="§2 C14"),
 "C15": dict(
    technique="property-based testing + coverage-guided fuzzing of (attribute tokens, item) pairs; oracle: no panic, output parses, documented misuses get their own diagnostic",
    engine="E1+E3",
    text="Generated-input search over well-formed and malformed option lists and items of every kind (200k quick / 4M thorough cases, plus a libFuzzer campaign in the thorough tier) with catch_unwind + syn::File parsing of the output + per-misuse message-category matching as the oracle. Exploration: a panic or unparsable expansion anywhere in the generated space is found and shrunk; absence elsewhere is not proved.",
    note="syn::File stands in for rustc's parser (inputs syn cannot parse as an item are discarded, not judged); message categories are matched on keywords so rewording is not an alarm; the undocumented `debug` option is excluded because it prints to stdout.",
    design="§2 C15"),
 "C17": dict(
    technique="metamorphic property-based testing: pairs of invocations declared equivalent by the statement must expand to identical token trees; option x target acceptance matrix",
    engine="E1",
    text="Generated metamorphic pairs (bare==true, false==omitted, option order, variant==option shorthand) over generated fn/mod/trait items and duplicate-free option sets, compared by exact token equality, plus the documented acceptance matrix (each option accepted on its documented targets, rejected elsewhere). Exploration over ~100k pairs quick / 2M thorough.",
    note="The crate-feature half of the statement is modelled in E1 by the `_unimock` macro variants (what the facade selects); the facade's own feature->variant mapping is observed through compiled clients in C10. Don't-cares: `no_deps` on a module, `debug`.",
    design="§2 C17"),
 "C03": dict(
    technique="property-based testing of compile verdicts: generated signatures over the supported class, compiled by rustc with model-derived fn-pointer coercion and call witnesses; plain-twin guard; fix-point attribution",
    engine="E2",
    text="Signatures generated from a grammar of the supported class (deps forms, parameter kinds, type/lifetime/const generics with inline and where bounds and lifetime predicates, sync/async, unsafe/extern, borrowed and generic returns, option sets, both feature settings) are expanded and type/borrow-checked by rustc. Each program coerces the fn item and the trait method to one fn-pointer type computed from the generator's model and calls the method from a witness fn with the modelled parameter and return types (exact Future::Output and is_send for async). 2x1500 quick / 2x40000 thorough; failures are shrunk on the tape.",
    note="`-> impl Trait` returns and `const fn` are outside the stated class; safe->unsafe fn-pointer coercion means a lost `unsafe` on the method is not visible here; the plain twin must compile or the case is discarded (generator fault, run inconclusive above 1%).",
    design="§2 C03"),
 "C04": dict(
    technique="property-based testing with run-time trait-availability probes (inherent-over-trait method resolution) over a family of application types derived from each generated bound declaration",
    engine="E2",
    text="Generated fns/modules declaring 0..4 dependency bounds in every syntactic form (inline, where, impl A + B, split, spread over module fns), by reference or by value, crossed with mock settings and both feature settings; for each, a family of probe types (all bounds, exactly one bound missing, unrelated extra trait, !Sync, Sync+!Send), bare and inside Impl<..>, is probed at run time and compared with `declared subset of traits(P) and Sync and (Send if by value)`, bare types only when not mockable. 2x400 programs (about 10 probes each) quick / 2x6000 thorough.",
    note="`'static` is not probed (selection ignores lifetimes). A program whose generated impl fails to type-check while its attribute-free twin compiles is reported as a dropped bound. Mock derivations stay un-exported here.",
    design="§2 C04"),
 "C05": dict(
    technique="property-based differential testing of compiled clients over four call routes (fn on &C, trait on C, on Impl<C>, on Impl<App> with a hand-written impl) plus availability probes",
    engine="E2",
    text="Generated concrete-dependency fns (type shapes ident/path/generic instantiation/tuple/array, elided or explicit reference lifetime, sync/async, owned or borrowed return, 0..3 arguments, options, both feature settings): the direct call on the relevant &C is the reference; the trait call on C, on Impl<C> (receiver must be the inner C) and on Impl<App> through a hand-written impl must give the same result and one-entry trace; probes assert which types implement the leaf trait. 300 programs quick / 5000 thorough.",
    note="By-value concrete dependencies are covered by C03 (compile) rather than here; a program failing to compile while its attribute-free twin compiles is a violation.",
    design="§2 C05"),
 "C06": dict(
    technique="property-based differential testing of compiled clients: recording provider called directly vs through Impl<App>, for the three delegation selectors; run-time availability probes",
    engine="E2",
    text="Generated traits (1..5 &self methods with repeated signatures, adjacent equal types, generic trait/method parameters, supertraits, wildcard parameters, &mut arguments, sync/async with and without async_trait) crossed with the selectors default/Self/ref/Borrow; each method is called on a recording provider and through Impl<App> with distinct values, comparing results, one-entry traces (method tag, provider address, arguments) and &mut arguments; probes assert Impl<App>: Tr, not Impl<NoProvider>, not Impl<!Sync app>. 400 programs quick / 5000 thorough. A program that fails to compile while its attribute-free twin compiles is a violation.",
    note="Don't-care: whether async + ref additionally needs T: Send. The provider call is the reference semantics.",
    design="§2 C06"),
 "C07": dict(
    technique="property-based differential testing of compiled clients: delegated trait with competing implementation blocks; trace of (target, fn, deps address, args) through Impl<A_k> vs the inherent call X_k::m(&app, ..)",
    engine="E2",
    text="Generated delegated traits (1..4 methods, repeated signatures, adjacent equal types, sync/async with/without async_trait), static (`delegate_by = DelegateTr`) or dynamic (`delegate_by = ref`), with 2..3 competing target types whose `#[entrait] impl TrImpl for X_k` fns use 0..3 further entrait dependencies, and one application per target. Calls through Impl<A_k> must produce exactly the trace and result of X_k::m(&app, args): right target, right fn, deps address == &Impl<A_k>, args in order, further dependencies usable. 300 programs quick / 4000 thorough.",
    note="Generic methods on delegated traits are not generated (the macro source itself marks forwarding of method generics as TODO; the statement does not list them). Compile failures are judged against an attribute-free twin.",
    design="§2 C07"),
 "C08": dict(
    technique="property-based testing: generated modules with decoy items, generator-side ground truth for the method list, syn-parsed trait of the expansion as observation",
    engine="E1+E2",
    text="Generated modules (0..8 items: visible fns with every qualifier/visibility spelling, private fns, body-less declarations, decoys containing `fn` tokens) with the expected method list computed from the generator's spec; the trait of the requested name inside the emitted module must list exactly those methods in order, and the re-export after the module must carry exactly the requested visibility. 150k quick / 3M thorough cases.",
    note="The expected list comes from the generator's own record of what it emitted, never from the macro; the import is observed at token level here (a compiled parent-scope client leg runs after it).",
    design="§2 C08"),
 "C09": dict(
    technique="property-based testing: generated trait definitions, structural diff (syn) of the input trait against the same-named trait of the expansion, modulo the documented async rewrite",
    engine="E1",
    text="Generated traits with attributes/docs, unsafe, generics, supertraits, where clauses, default bodies, associated types and async methods crossed with all trait-mode option sets; field-by-field comparison in both directions (nothing lost, nothing but owned mock attributes added). The two differences recorded as open known findings are tolerated exactly and probed separately.",
    note="syn's parse/print round trip is trusted for both sides of the diff; what `owned mock attribute` means is fixed syntactically (path ends in unimock/automock, possibly inside cfg_attr(test, ..)) and excludes attributes the user wrote.",
    design="§2 C09"),
 "C19": dict(
    technique="metamorphic property-based testing of compiled clients: the same usage unit in a benign module and in a module with generated shadowing items / hostile trait names must compile and compute the same value; no_std crate build",
    engine="E2",
    text="13 usage units covering all four input modes and every delegation kind are invoked by absolute path in modules without imports; the hostile twin additionally defines a generated subset of 22 local items (structs, traits, modules) named like everything the macro refers to, and may name the generated trait Send/Sync/Future/Impl/AsRef/Sized. It must compile and compute the same value as the benign twin; compile failures are judged against the shadow-free twin. One #![no_std] library crate contains every unit. 300 programs quick / 5000 thorough.",
    note="User code in the units uses absolute paths only, so a failure is the macro's reference; `Box` is not shadowed next to async_trait (that macro's own bare reference). The reserved identifiers EntraitT/__impl are not shadowed.",
    design="§2 C19"),
 "C20": dict(
    technique="property-based testing over histories: one generated corpus expanded under permutations, repetitions, threads and perturbed child processes; oracle = per-key equality of outputs",
    engine="E1+E2",
    text="A generated corpus (6k quick / 60k thorough distinct invocations) is expanded in baseline order, reversed, under 4 permutations, tripled/interleaved, from 4 threads and in >=6 fresh child processes with their own order, cleared/perturbed environment and working directory (plus every environment variable name found in the macro source, over a value matrix); every history must give the baseline's tokens for every key.",
    note="Cannot see non-determinism that needs a machine state none of the histories produces (a specific env var value, wall clock thresholds); children share the binary, so build-time non-determinism is out of scope.",
    design="§2 C20"),
 "C16": dict(
    technique="small-scope exhaustive enumeration plus property-based random lists of parameter patterns; structural oracle (syn) on the generated trait method and delegating method",
    engine="E1+E2",
    text="Every valid pattern list of length <=3 over an 18-symbol alphabet (the 12 symbols of the statement plus lifted/renamed collision shapes, 3-binding and 0-binding destructures) x {deps, no_deps} is enumerated completely; longer lists (up to 7) x fn names x sync/async are sampled (100k quick / 2M thorough). Oracle: one plain ident per parameter, types in order, names pairwise distinct and != fn name, required names kept, ambiguous patterns get generated names, and the delegating call forwards exactly those idents positionally.",
    note="Exhaustive only for the stated small scope; a compile-and-run leg through rustc follows (all lists of length <=2 and a sample of length 3 in quick, all of length <=3 in thorough). Don't-care: destructured bindings starting with `_`.",
    design="§2 C16"),
 "C18": dict(
    technique="property-based testing with unique marker attributes: occurrence counting in the expansion, syn-level attribute-list comparison for mirrored trait methods and cfg gating",
    engine="E1+E2",
    text="Generated fn/mod/trait/impl inputs carrying unique marker attributes on items, members and parameters, and enabled/disabled cfg predicates; each marker must occur exactly once (nothing copied to generated traits/impls, parameter attributes stripped), trait-method attribute lists must reappear identically on the delegating methods, and a cfg-disabled member fn must leave no ungated generated method. 150k quick / 3M thorough.",
    note="cfg predicates are not evaluated in E1: `disabled` is known from the generator (`cfg(any())`, `cfg(not(all()))`) and the oracle demands the same attribute on the generated methods; an E2 leg compiles and runs programs with cfg-disabled members in all shapes.",
    design="§2 C18"),
}

NOT_YET = "check not built yet (build in progress; see DESIGN.md §2 for the planned oracle)"

def main():
    props = [json.loads(l)["id"] for l in open(os.path.join(ROOT, "properties.jsonl"))]
    checks = []
    for pid in props:
        c = CHECKS.get(pid)
        if not c: continue
        checks.append({
            "property_id": pid,
            "quick_cmd": f"./check {pid} --tier quick",
            "thorough_cmd": f"./check {pid} --tier thorough",
            "evidence_file": f"/verif/evidence/{pid}.json",
            "replay_cmd_template": f"./check {pid} --replay {{path}}",
            "engine": c["engine"],
            "level_claimed": {"category": "exploration", "text": c["text"], "design_ref": c["design"]},
            "level_note": c["note"],
            "technique": c["technique"],
        })
    m = {
        "version": 1,
        "setup_cmd": "./setup.sh",
        "hooks": {
            "guard": "audunhalland_entrait_verif",
            "enable": "RUSTFLAGS='--cfg audunhalland_entrait_verif' (set by the E2 client builder in engine/src/e2.rs); ENTRAIT_VERIF_DUMP=<prefix> names the dump files",
            "baseline_off_cmd": "cd /repo && cargo test --workspace --no-fail-fast --offline",
            "source_commits": ["fdc3fe0"],
            "add_only": True,
        },
        "engines": [
            {"name": "E1", "path": "engine/ (entrait_port + props)", "serves_properties": [p for p in props if CHECKS.get(p, {}).get("engine", "").startswith("E1")], "kind_free_text": "working-tree macro source compiled in-process (mechanical port of lib.rs), proptest choice tapes, token/syn oracles"},
            {"name": "E2", "path": "engine/src/e2.rs", "serves_properties": [p for p in props if "E2" in CHECKS.get(p, {}).get("engine", "")], "kind_free_text": "generated client crates compiled by rustc against /repo with the recorder hook on; compile verdicts, differential runs, probes"},
        ],
        "checks": checks,
        "notes": "All checks: exit 0 = held on everything explored (KNOWN-FINDING lines possible), 1 = VIOLATION line printed, 2 = inconclusive (harness trouble, never a verdict). VERIF_SEED selects the proptest seed; VERIF_REPO may point the engine at a scratch copy of the repository (default /repo).",
        "not_applicable": [{"property_id": p, "reason": NOT_YET} for p in props if p not in CHECKS],
    }
    out = os.path.join(ROOT, "MANIFEST.json")
    json.dump(m, open(out, "w"), indent=1)
    try:
        import jsonschema
        jsonschema.validate(m, json.load(open("/root/.vp/MANIFEST.schema.json")))
        print("MANIFEST.json valid;", len(checks), "checks")
    except ImportError:
        print("jsonschema not available; written unvalidated")

if __name__ == "__main__":
    main()
