//! C07 — dependency inversion: Impl<T> reaches the selected implementation block (E2: trace of target, fn, deps address, args).

use crate::e2::{Batch, Opts};
use crate::ev::Ctx;
use crate::prog::{self, PK, VT};
use crate::tape::Tape;
use serde_json::{json, Value};

use super::c06::Method;

pub struct Case {
    pub src: String,
    pub twin: String,
    pub summary: String,
    pub nontrivial: bool,
    pub classes: Vec<&'static str>,
}

fn trait_sig(m: &Method) -> String {
    let mut ps = vec![if m.typed_receiver { "self: &Self".to_string() } else { "&self".to_string() }];
    for p in &m.params {
        ps.push(format!("{}: {}", if p.pk == PK::Wild { "_".to_string() } else { p.name.clone() }, p.vt.ty("V")));
    }
    format!("{}fn {}({}){}", if m.is_async { "async " } else { "" }, m.name, ps.join(", "), if m.ret_unit { "" } else { " -> String" })
}

fn impl_fn(m: &Method, target: usize, deps: &[usize], generic_form: bool, vis: &str, not_send: bool) -> String {
    // deps 3 and 4 are two instantiations of one generic entraited trait: same path, different generic arguments
    let bname = |d: &usize| match d {
        3 => "GDep<i32>".to_string(),
        4 => "GDep<u8>".to_string(),
        // two different leaf traits whose paths end in the same segment
        5 => "pa::Leaf".to_string(),
        6 => "pb::Leaf".to_string(),
        d => format!("Dep{d}"),
    };
    let bounds: Vec<String> = deps.iter().map(bname).collect();
    let (g, dp) = if generic_form {
        (format!("<D{}>", if bounds.is_empty() { String::new() } else { format!(": {}", bounds.join(" + ")) }), "deps: &D".to_string())
    } else {
        (String::new(), format!("deps: &(impl {})", if bounds.is_empty() { "Sized".to_string() } else { bounds.join(" + ") }))
    };
    let mut ps = vec![dp];
    for p in &m.params {
        ps.push(format!("{}: {}", p.name, p.vt.ty("V")));
    }
    let mut s = format!("{vis}{}fn {}{g}({}){} {{\n", if m.is_async { "async " } else { "" }, m.name, ps.join(", "), if m.ret_unit { "" } else { " -> String" });
    s.push_str("        let __id = rt::addr(deps);\n");
    let mut parts = vec![];
    for (i, p) in m.params.iter().enumerate() {
        s.push_str(&format!("        let __a{i} = format!(\"{{:?}}\", {});\n", p.name));
        parts.push(format!("__a{i}.as_str()"));
        if p.vt == VT::MutVec {
            s.push_str(&format!("        {}.push({});\n", p.name, 1000 + i));
        }
    }
    if m.is_async {
        // under `?Send` the selected block may hold a !Send value across an await
        if not_send {
            s.push_str("        let __rc = ::std::rc::Rc::new(0u8);\n        rt::yield_once().await;\n        let _ = *__rc;\n");
        } else {
            s.push_str("        rt::yield_once().await;\n");
        }
    }
    // the block's fns really use their further dependencies
    let mut sum = String::from("0u32");
    for d in deps {
        match d {
            3 => sum.push_str(" + <_ as GDep<i32>>::gdep(deps)"),
            4 => sum.push_str(" + <_ as GDep<u8>>::gdep(deps)"),
            5 => sum.push_str(" + <_ as pa::Leaf>::leaf(deps)"),
            6 => sum.push_str(" + <_ as pb::Leaf>::leaf(deps)"),
            d => sum.push_str(&format!(" + deps.dep{d}()")),
        }
    }
    let args = if parts.is_empty() { "String::new()".to_string() } else { format!("[{}].join(\",\")", parts.join(", ")) };
    s.push_str(&format!("        let __r = format!(\"X{target}.{}|{{}}|{{}}|{{}}\", __id, {args}, {sum});\n        rt::trace(__r.clone());\n        {}\n    }}\n", m.tag, if m.ret_unit { "" } else { "__r" }));
    s
}

/// (trait method declaration, fn in the block of target `x`) of the borrowed-return method of kind `k`
fn borrow_method(k: usize, x: usize) -> (String, String) {
    match k {
        0 => ("fn tagline(&self, n: u32) -> &str".to_string(), format!("pub fn tagline(deps: &impl Sized, n: u32) -> &str {{ rt::trace(format!(\"X{x}.TL|{{}}|{{}}\", rt::addr(deps), n)); \"X{x}\" }}\n")),
        1 => ("fn tagline<'a>(&'a self, n: u32) -> &'a str".to_string(), format!("pub fn tagline<'a>(deps: &'a impl Sized, n: u32) -> &'a str {{ rt::trace(format!(\"X{x}.TL|{{}}|{{}}\", rt::addr(deps), n)); \"X{x}\" }}\n")),
        3 => (
            "fn tagline<'a>(&'a self, n: u32) -> (&'a str, Option<&str>)".to_string(),
            format!("pub fn tagline<'a>(deps: &'a impl Sized, n: u32) -> (&'a str, Option<&str>) {{ rt::trace(format!(\"X{x}.TL|{{}}|{{}}\", rt::addr(deps), n)); (\"X{x}\", Some(\"X{x}\")) }}\n"),
        ),
        4 => (
            "fn tagline(&self, k: &str) -> (&str, usize)".to_string(),
            format!("pub fn tagline<'a>(deps: &'a impl Sized, k: &str) -> (&'a str, usize) {{ rt::trace(format!(\"X{x}.TL|{{}}|{{}}\", rt::addr(deps), k)); (\"X{x}\", k.len()) }}\n"),
        ),
        5 => ("fn tagline(&self, n: u32) -> &[&str]".to_string(), format!("pub fn tagline(deps: &impl Sized, n: u32) -> &[&str] {{ rt::trace(format!(\"X{x}.TL|{{}}|{{}}\", rt::addr(deps), n)); &[\"X{x}\"] }}\n")),
        6 => (
            "fn tagline(&self, k: &str) -> &[&str]".to_string(),
            format!("pub fn tagline<'a>(deps: &'a impl Sized, k: &str) -> &'a [&'a str] {{ rt::trace(format!(\"X{x}.TL|{{}}|{{}}\", rt::addr(deps), k)); &[\"X{x}\"] }}\n"),
        ),
        7 => ("fn tagline<'a>(self: &'a Self, n: u32) -> &'a str".to_string(), format!("pub fn tagline<'a>(deps: &'a impl Sized, n: u32) -> &'a str {{ rt::trace(format!(\"X{x}.TL|{{}}|{{}}\", rt::addr(deps), n)); \"X{x}\" }}\n")),
        9 => (
            "fn tagline(&'_ self, k: &str) -> (&str, usize)".to_string(),
            format!("pub fn tagline<'a>(deps: &'a impl Sized, k: &str) -> (&'a str, usize) {{ rt::trace(format!(\"X{x}.TL|{{}}|{{}}\", rt::addr(deps), k)); (\"X{x}\", k.len()) }}\n"),
        ),
        8 => ("fn tagline(&self, n: u32) -> &str".to_string(), format!("pub fn tagline(deps: &'_ impl Sized, n: u32) -> &str {{ rt::trace(format!(\"X{x}.TL|{{}}|{{}}\", rt::addr(deps), n)); \"X{x}\" }}\n")),
        _ => ("fn tagline<'a>(&self, s: &'a str) -> &'a str".to_string(), format!("pub fn tagline<'a>(deps: &impl Sized, s: &'a str) -> &'a str {{ rt::trace(format!(\"X{x}.TL|{{}}|{{}}\", rt::addr(deps), s)); s }}\n")),
    }
}

pub const BORROW_KINDS: [&str; 10] = ["borrow from the receiver (elided lifetime)", "borrow from the receiver (named lifetime)", "borrow from an argument (named lifetime)", "borrow from the receiver (named lifetime next to an elided one in the output)", "borrow from the receiver (elided) next to another reference argument", "elided lifetime nested inside an elided reference output", "elided lifetime nested inside an elided reference output next to another reference argument", "borrow from a typed receiver `self: &'a Self`", "borrow from the receiver, the block's dependency written `&'_ impl ..`", "borrow from a receiver written `&'_ self` next to another reference argument"];

pub fn gen_case(t: &mut Tape, excl: &[usize]) -> Case {
    let dynamic = t.chance(2, 5);
    let any_async = t.chance(1, 3);
    let use_async_trait = any_async && (dynamic || t.chance(1, 4));
    let n_methods = t.range(1, 4);
    let names = prog::member_names(t, n_methods);
    let mut methods: Vec<Method> = vec![];
    for i in 0..n_methods {
        let m = if i > 0 && t.chance(1, 2) {
            let mut c = methods[i - 1].clone();
            c.name = names[i].clone();
            c.tag = format!("M{i}");
            c
        } else {
            let mut params = prog::gen_params(t, 4, false, false);
            for p in params.iter_mut() {
                if p.vt == VT::Gen {
                    p.vt = VT::I32;
                }
            }
            Method { name: names[i].clone(), tag: format!("M{i}"), is_async: any_async && t.chance(2, 3), params, has_gen: false, uses_u: false, typed_receiver: t.chance(1, 8), ret_unit: t.chance(1, 5), where_form: false }
        };
        methods.push(m);
    }
    if any_async && !methods.iter().any(|m| m.is_async) {
        methods[0].is_async = true;
    }
    // an extra method that returns a borrow: from the receiver / the dependency (elided or named lifetime) or from an argument
    let borrow_kind: Option<usize> = if t.chance(1, 3) { Some([0, 1, 2, 3, 4, 2, 5, 6, 7, 8, 9][t.choose(11)]) } else { None };
    let borrow_kind = borrow_kind.filter(|k| !excl.contains(k));
    // static selection: a method with type / const parameters of its own (one inferable from an argument, one not),
    // and a method that takes `self` by value (the block's fn takes its dependency by value)
    let gen_method: Option<bool> = if !dynamic && t.chance(1, 4) { Some(t.flip()) } else { None }; // Some(named deps parameter)
    let byval_method: Option<bool> = if !dynamic && t.chance(1, 5) { Some(any_async && t.flip()) } else { None }; // Some(async)
    // the first fn of every block has a disabled alternative; the `cfg`s are not the first attribute of the fns
    let cfg_alt = t.chance(1, 5);
    // a method with a default body and non-identifier parameter patterns: through `Impl<T>` the selected block answers, not
    // the default body; the body-less copy in the delegation-target trait cannot keep the patterns
    let dflt_pat = t.chance(1, 5);
    // a `&mut self` method next to the `&self` ones (static selection: the block's fn still takes `&impl Deps`)
    let mut_method = !dynamic && t.chance(1, 4);
    // (the exclusive receiver may be written as a typed one)
    let mut_typed = mut_method && t.chance(1, 3);
    let n_targets = t.range(2, 3);
    // dynamic selection of an async trait may opt out of Send futures as well: `?Send` + `#[async_trait(?Send)]`
    let maybe_send_dyn = dynamic && any_async && t.chance(1, 3);
    let at_attr = if maybe_send_dyn { "#[::async_trait::async_trait(?Send)]" } else { "#[::async_trait::async_trait]" };
    let at_owned = if use_async_trait { format!("{at_attr}\n") } else { String::new() };
    let at = at_owned.as_str();
    let trait_attr = if dynamic { "TrImpl, delegate_by = ref".to_string() } else { "TrImpl, delegate_by = DelegateTr".to_string() };
    let trait_attr = if t.chance(1, 5) { format!("pub {trait_attr}") } else { trait_attr };
    // options that must not influence the delegation
    let mut trait_attr = trait_attr;
    let maybe_send = any_async && !use_async_trait && t.chance(1, 3);
    if maybe_send || maybe_send_dyn {
        trait_attr.push_str(", ?Send");
    }
    // ... and then a block's futures need not be Send (static selection only: `dyn TrImpl<Self> + Sync` providers stay Send-agnostic)
    let not_send_blocks = maybe_send && !dynamic && t.chance(2, 3);
    if t.chance(1, 4) {
        trait_attr.push_str(*t.pick(&[", unimock = false", ", mockall = false", ", mock_api = TrMock"]));
    }
    // the trait may ask something of its implementor in a where clause (`where Self: Mark`): that is `Impl<T>`, not the target types
    let where_self = t.chance(1, 5);
    // the provided method may carry a codegen hint; unused attributes are denied, as in a crate under `deny(warnings)`
    let dflt_inline = dflt_pat && t.flip();
    let mut src = String::from(if dflt_inline { "#![allow(warnings)]\n#![deny(unused_attributes)]\n" } else { "#![allow(warnings)]\n" });
    if where_self {
        src.push_str("pub trait Mark {}\nimpl<T> Mark for ::entrait::Impl<T> {}\n");
    }
    src.push_str("use crate::rt;\n#[derive(Debug, Clone, PartialEq)] pub struct N(pub i32);\n#[derive(Debug, Clone, PartialEq)] pub struct S { pub a: i32 }\n");
    for d in 0..3 {
        src.push_str(&format!("#[::entrait::entrait(pub Dep{d})]\nfn dep{d}(_deps: &impl Sized) -> u32 {{ {} }}\n", d + 1));
    }
    src.push_str("#[::entrait::entrait]\npub trait GDep<E> { fn gdep(&self) -> u32; }\n");
    src.push_str("pub mod pa { #[::entrait::entrait]\npub trait Leaf { fn leaf(&self) -> u32; } }\npub mod pb { #[::entrait::entrait]\npub trait Leaf { fn leaf(&self) -> u32; } }\n");
    // trait and / or the first block may come out of a `macro_rules!` expansion in which one method has two parameters of
    // one spelling (one written in the macro, one passed in): different identifiers, told apart by their spans only
    let same_spelled: Option<(usize, usize, usize)> = methods.iter().enumerate().find_map(|(mi, m)| {
        let plain: Vec<usize> = m.params.iter().enumerate().filter(|(_, p)| p.pk == PK::Plain).map(|(i, _)| i).collect();
        (plain.len() >= 2).then(|| (mi, plain[0], plain[plain.len() - 1]))
    });
    let hygiene_trait = same_spelled.filter(|_| t.chance(1, 8));
    let hygiene_block = same_spelled.filter(|_| t.chance(1, 8));
    let mut trait_methods = methods.clone();
    if let Some((mi, _, j)) = hygiene_trait {
        trait_methods[mi].params[j].name = "$p".to_string();
        src.push_str("macro_rules! __mk_tr { ($p:ident) => {\n");
    }
    src.push_str(&format!("/*GEN*/ #[::entrait::entrait({trait_attr})]\n{at}pub trait Tr{} {{\n", if where_self { " where Self: Mark" } else { "" }));
    for m in &trait_methods {
        src.push_str(&format!("    {};\n", trait_sig(m)));
    }
    if let Some(k) = borrow_kind {
        src.push_str(&format!("    {};\n", borrow_method(k, 0).0));
    }
    if mut_method {
        src.push_str(if mut_typed { "    fn record(self: &mut Self, level: u8, line: &str) -> String;\n" } else { "    fn record(&mut self, level: u8, line: &str) -> String;\n" });
    }
    if gen_method.is_some() {
        src.push_str("    fn convert<W: ::core::fmt::Debug + Default, const K: usize>(&self, w: W) -> String;\n");
    }
    if dflt_pat {
        if dflt_inline {
            src.push_str(*t.pick(&["    #[inline]\n", "    #[cold]\n", "    #[inline(always)]\n", "    #[cfg_attr(all(), inline)]\n", "    #[cfg_attr(not(test), cold, doc = \"x\")]\n", "    #[cfg_attr(all(), cfg_attr(all(), inline(always)))]\n"]));
        }
        src.push_str("    fn combine(&self, (a, b): (i32, i32), N(c): N, mut d: i32) -> String { d += 1; format!(\"DEFAULT|{},{},{},{}\", a, b, c, d) }\n");
    }
    if let Some(a) = byval_method {
        src.push_str(&format!("    {}fn consume(self, x: i32) -> String;\n", if a { "async " } else { "" }));
    }
    src.push_str("}\n");
    if let Some((mi, i, _)) = hygiene_trait {
        src.push_str(&format!("}} }}\n__mk_tr!({});\n", methods[mi].params[i].name));
    }
    let mut max_deps = 0;
    let impl_named = t.chance(1, 8) && methods.iter().any(|m| !m.params.is_empty());
    for x in 0..n_targets {
        let block_methods: Vec<Method> = match hygiene_block {
            Some((mi, _, j)) if x == 0 => {
                let mut ms = methods.clone();
                ms[mi].params[j].name = "$p".to_string();
                src.push_str("macro_rules! __mk_block { ($p:ident) => {\n");
                ms
            }
            _ => {
                let mut ms = methods.clone();
                // a parameter of a block fn may have the name the macro gives the receiver it puts in front
                if impl_named && hygiene_block.is_none() {
                    if let Some(p) = ms.iter_mut().flat_map(|m| m.params.iter_mut()).next() {
                        p.name = "__impl".to_string();
                    }
                }
                ms
            }
        };
        src.push_str(&format!("pub struct X{x};\n/*GEN*/ #[::entrait::entrait{}]\n", if dynamic { "(ref)" } else { "" }));
        if use_async_trait {
            src.push_str(&format!("/*GEN*/ {at_attr}\n"));
        }
        src.push_str(&format!("/*GEN*/ impl TrImpl for X{x} {{\n/*TWIN*/ impl X{x} {{\n"));
        for (bi, m) in block_methods.iter().enumerate() {
            if cfg_alt && bi == 0 {
                src.push_str(&format!("    /// the other configuration\n    #[inline]\n    #[cfg(any())]\n    pub fn {}(deps: &impl Sized) -> NoSuchType {{ NoSuchType }}\n    /// this configuration\n    #[inline]\n    #[cfg(all())]\n", m.name));
            }
            let nd = t.weighted(&[3, 3, 2, 1, 1]);
            let mut deps = vec![];
            for _ in 0..nd {
                let d = t.choose(7);
                if !deps.contains(&d) {
                    deps.push(d);
                }
            }
            max_deps = max_deps.max(deps.len());
            let vis = if t.chance(1, 3) { "pub " } else { "" };
            src.push_str(&format!("    {}", impl_fn(m, x, &deps, t.flip(), vis, not_send_blocks)));
        }
        if let Some(k) = borrow_kind {
            src.push_str(&format!("    {}", borrow_method(k, x).1));
        }
        if mut_method {
            src.push_str(&format!("    pub fn record(deps: &impl Sized, level: u8, line: &str) -> String {{ let __r = format!(\"X{x}.REC|{{}}|{{}},{{}}\", rt::addr(deps), level, line); rt::trace(__r.clone()); __r }}\n"));
        }
        if let Some(named) = gen_method {
            let (g, d) = if named { ("<W: ::core::fmt::Debug + Default, D, const K: usize>", "&D") } else { ("<W: ::core::fmt::Debug + Default, const K: usize>", "&impl Sized") };
            src.push_str(&format!("    pub fn convert{g}(deps: {d}, w: W) -> String {{ let __r = format!(\"X{x}.CV|{{}}|{{:?}}|{{:?}}|{{}}\", rt::addr(deps), w, W::default(), K); rt::trace(__r.clone()); __r }}\n"));
        }
        if dflt_pat {
            src.push_str(&format!("    pub fn combine(deps: &impl Sized, (a, b): (i32, i32), N(c): N, d: i32) -> String {{ let __r = format!(\"X{x}.CB|{{}}|{{}},{{}},{{}},{{}}\", rt::addr(deps), a, b, c, d); rt::trace(__r.clone()); __r }}\n"));
        }
        if let Some(a) = byval_method {
            let (q, y) = if a { ("async ", "rt::yield_once().await; ") } else { ("", "") };
            src.push_str(&format!("    pub {q}fn consume<D>(deps: D, x: i32) -> String {{ {y}let __r = format!(\"X{x}.CS|{{}}\", x); rt::trace(__r.clone()); __r }}\n"));
        }
        src.push_str("}\n");
        if let (Some((mi, i, _)), 0) = (hygiene_block, x) {
            src.push_str(&format!("}} }}\n__mk_block!({});\n", methods[mi].params[i].name));
        }
    }
    // apps: A_k selects target k % n_targets ... with at least two different targets
    let n_apps = n_targets;
    for a in 0..n_apps {
        if dynamic {
            let dyn_ty = if any_async { "dyn TrImpl<Self> + Sync" } else { "dyn TrImpl<Self>" };
            // the other flavour of the trait object leads to a *different* block: it is not the one `Impl<T>` has to ask for
            let decoy_ty = if any_async { "dyn TrImpl<Self>" } else { "dyn TrImpl<Self> + Sync" };
            let b = (a + 1) % n_targets;
            src.push_str(&format!(
                "pub struct A{a} {{ pub pad: u64, pub target: X{a}, pub decoy: X{b} }}\n/*GEN*/ impl AsRef<{dyn_ty}> for A{a} {{ fn as_ref(&self) -> &({dyn_ty} + 'static) {{ &self.target }} }}\n/*GEN*/ impl AsRef<{decoy_ty}> for A{a} {{ fn as_ref(&self) -> &({decoy_ty} + 'static) {{ &self.decoy }} }}\nfn mk_a{a}() -> A{a} {{ A{a} {{ pad: {a}, target: X{a}, decoy: X{b} }} }}\n"
            ));
        } else {
            src.push_str(&format!("pub struct A{a} {{ pub pad: u64 }}\n/*GEN*/ impl DelegateTr<Self> for A{a} {{ type Target = X{a}; }}\nfn mk_a{a}() -> A{a} {{ A{a} {{ pad: {a} }} }}\n"));
        }
    }
    for a in 0..n_apps {
        src.push_str(&format!("impl GDep<i32> for A{a} {{ fn gdep(&self) -> u32 {{ 40 }} }}\nimpl GDep<u8> for A{a} {{ fn gdep(&self) -> u32 {{ 50 }} }}\nimpl pa::Leaf for A{a} {{ fn leaf(&self) -> u32 {{ 60 }} }}\nimpl pb::Leaf for A{a} {{ fn leaf(&self) -> u32 {{ 70 }} }}\n"));
    }
    // a second delegated trait (static selection) with an associated fn that has no receiver: there is no `Impl<T>` to
    // hand on, the call goes to the target's associated fn (written as a hand-made impl of the target trait: an
    // `#[entrait] impl` block takes fns with a dependency only)
    let assoc_fn_trait = !dynamic && t.chance(1, 5);
    if assoc_fn_trait {
        src.push_str("/*GEN*/ #[::entrait::entrait(MkImpl, delegate_by = DelegateMk)]\npub trait Mk { fn make(x: i32, y: i32) -> String; fn probe(&self) -> i32; }\n");
        for a in 0..n_apps {
            src.push_str(&format!("pub struct MkT{a};\n/*GEN*/ impl<T> MkImpl<T> for MkT{a} {{ fn make(x: i32, y: i32) -> String {{ format!(\"MK{a}|{{}}|{{}}\", x, y) }} fn probe(_i: &::entrait::Impl<T>) -> i32 {{ {a} }} }}\n/*GEN*/ impl DelegateMk<Self> for A{a} {{ type Target = MkT{a}; }}\n"));
        }
    }
    src.push_str("pub fn run() -> Vec<String> {\n    let mut fails: Vec<String> = vec![];\n");
    if assoc_fn_trait {
        for a in 0..n_apps {
            src.push_str(&format!("/*GEN*/ rt::expect_eq(&mut fails, \"associated fn without a receiver of a statically delegated trait, through Impl<A{a}>\", &<::entrait::Impl<A{a}> as Mk>::make(3, 4), &String::from(\"MK{a}|3|4\"));\n"));
        }
    }
    for a in 0..n_apps {
        src.push_str(&format!("    let app{a} = ::entrait::Impl::new(mk_a{a}());\n"));
        for (i, m) in methods.iter().enumerate() {
            let args: String = m.params.iter().enumerate().map(|(k, p)| p.vt.expr(k)).collect::<Vec<_>>().join(", ");
            let comma = if args.is_empty() { "" } else { ", " };
            let wrap = |e: String| if m.is_async { format!("rt::block_on({e})") } else { e };
            let vec_decls: String = m.params.iter().enumerate().filter(|(_, p)| p.vt == VT::MutVec).map(|(k, _)| format!("let mut vec_{k}: Vec<i32> = vec![{}]; ", k + 1)).collect();
            let vec_names: Vec<String> = m.params.iter().enumerate().filter(|(_, p)| p.vt == VT::MutVec).map(|(k, _)| format!("vec_{k}")).collect();
            src.push_str("    {\n        let _ = rt::take();\n");
            src.push_str(&format!("        {vec_decls}\n        let direct = {};\n        let t_direct = rt::take();\n", wrap(format!("X{a}::{}(&app{a}{comma}{args})", m.name))));
            for v in &vec_names {
                src.push_str(&format!("        let d_{v} = {v}.clone();\n"));
            }
            src.push_str(&format!("        {vec_decls}\n/*GEN*/ let via = {};\n        let t_via = rt::take();\n", wrap(format!("app{a}.{}({args})", m.name))));
            src.push_str("        if t_direct.len() != 1 { fails.push(format!(\"HARNESS: direct call traced {} entries\", t_direct.len())); }\n");
            src.push_str(&format!("        if !t_direct[0].contains(&format!(\"|{{}}|\", rt::addr(&app{a}))) {{ fails.push(\"HARNESS: direct trace lacks the deps address\".to_string()); }}\n"));
            src.push_str(&format!("/*GEN*/ rt::expect_eq(&mut fails, \"app{a} method#{i} {}: result through Impl<A{a}> vs X{a}::{}\", &via, &direct);\n", m.name, m.name));
            src.push_str(&format!("/*GEN*/ rt::expect_eq(&mut fails, \"app{a} method#{i} {}: call trace (target, fn, deps address, args) through Impl<A{a}> vs X{a}::{}\", &t_via, &t_direct);\n", m.name, m.name));
            for v in &vec_names {
                src.push_str(&format!("/*GEN*/ rt::expect_eq(&mut fails, \"app{a} method#{i} {}: &mut argument {v}\", &{v}, &d_{v});\n", m.name));
            }
            src.push_str("    }\n");
        }
    }
    if let Some(k) = borrow_kind {
        for a in 0..n_apps {
            let arg = if k == 2 || k == 4 || k == 6 || k == 9 { "\"arg\"" } else { "77" };
            src.push_str("    {\n        let _ = rt::take();\n");
            src.push_str(&format!("        let direct = format!(\"{{:?}}\", X{a}::tagline(&app{a}, {arg}));\n        let t_direct = rt::take();\n"));
            src.push_str(&format!("/*GEN*/ let via = format!(\"{{:?}}\", Tr::tagline(&app{a}, {arg}));\n        let t_via = rt::take();\n"));
            src.push_str(&format!("/*GEN*/ rt::expect_eq(&mut fails, \"app{a} borrowed-return method: result through Impl<A{a}> vs X{a}::tagline\", &via, &direct);\n"));
            src.push_str(&format!("/*GEN*/ rt::expect_eq(&mut fails, \"app{a} borrowed-return method: call trace\", &t_via, &t_direct);\n"));
            src.push_str("    }\n");
        }
    }
    if mut_method {
        for a in 0..n_apps {
            src.push_str(&format!("    {{\n        let mut mapp = ::entrait::Impl::new(mk_a{a}());\n        let _ = rt::take();\n"));
            src.push_str(&format!("        let direct = X{a}::record(&mapp, 3, \"ln\");\n        let t_direct = rt::take();\n"));
            src.push_str("/*GEN*/ let via = Tr::record(&mut mapp, 3, \"ln\");\n        let t_via = rt::take();\n");
            src.push_str(&format!("/*GEN*/ rt::expect_eq(&mut fails, \"app{a} `&mut self` method: result through Impl<A{a}> vs X{a}::record\", &via, &direct);\n"));
            src.push_str(&format!("/*GEN*/ rt::expect_eq(&mut fails, \"app{a} `&mut self` method: call trace\", &t_via, &t_direct);\n"));
            src.push_str("    }\n");
        }
    }
    if let Some(named) = gen_method {
        for a in 0..n_apps {
            let tf = if named { "::<(u8, bool), _, 4>" } else { "::<(u8, bool), 4>" };
            src.push_str("    {\n        let _ = rt::take();\n");
            src.push_str(&format!("        let direct = X{a}::convert{tf}(&app{a}, (9u8, true));\n        let t_direct = rt::take();\n"));
            src.push_str(&format!("/*GEN*/ let via = Tr::convert::<(u8, bool), 4>(&app{a}, (9u8, true));\n        let t_via = rt::take();\n"));
            src.push_str(&format!("/*GEN*/ rt::expect_eq(&mut fails, \"app{a} method with type / const parameters: result through Impl<A{a}> vs X{a}::convert\", &via, &direct);\n"));
            src.push_str(&format!("/*GEN*/ rt::expect_eq(&mut fails, \"app{a} method with type / const parameters: call trace\", &t_via, &t_direct);\n"));
            src.push_str("        if t_direct.len() != 1 { fails.push(format!(\"HARNESS: convert traced {} entries\", t_direct.len())); }\n");
            src.push_str("    }\n");
        }
    }
    if dflt_pat {
        for a in 0..n_apps {
            src.push_str("    {\n        let _ = rt::take();\n");
            src.push_str(&format!("        let direct = X{a}::combine(&app{a}, (1, 2), N(3), 4);\n        let t_direct = rt::take();\n"));
            src.push_str(&format!("/*GEN*/ let via = Tr::combine(&app{a}, (1, 2), N(3), 4);\n        let t_via = rt::take();\n"));
            src.push_str(&format!("/*GEN*/ rt::expect_eq(&mut fails, \"app{a} defaulted method with parameter patterns: result through Impl<A{a}> vs X{a}::combine\", &via, &direct);\n"));
            src.push_str(&format!("/*GEN*/ rt::expect_eq(&mut fails, \"app{a} defaulted method with parameter patterns: call trace\", &t_via, &t_direct);\n"));
            src.push_str("        if t_direct.len() != 1 { fails.push(format!(\"HARNESS: combine traced {} entries\", t_direct.len())); }\n");
            src.push_str("    }\n");
        }
    }
    if let Some(asy) = byval_method {
        for a in 0..n_apps {
            let wrap = |e: String| if asy { format!("rt::block_on({e})") } else { e };
            src.push_str("    {\n        let _ = rt::take();\n");
            src.push_str(&format!("        let direct = {};\n        let t_direct = rt::take();\n", wrap(format!("X{a}::consume(::entrait::Impl::new(mk_a{a}()), 21)"))));
            src.push_str(&format!("/*GEN*/ let via = {};\n        let t_via = rt::take();\n", wrap(format!("Tr::consume(::entrait::Impl::new(mk_a{a}()), 21)"))));
            src.push_str(&format!("/*GEN*/ rt::expect_eq(&mut fails, \"app{a} by-value method: result through Impl<A{a}> vs X{a}::consume\", &via, &direct);\n"));
            src.push_str(&format!("/*GEN*/ rt::expect_eq(&mut fails, \"app{a} by-value method: call trace\", &t_via, &t_direct);\n"));
            src.push_str("        if t_direct.len() != 1 { fails.push(format!(\"HARNESS: consume traced {} entries\", t_direct.len())); }\n");
            src.push_str("    }\n");
        }
    }
    src.push_str("    fails\n}\n");
    let same_sig = methods.windows(2).any(|w| trait_sig(&w[0]).replace(&w[0].name, "") == trait_sig(&w[1]).replace(&w[1].name, ""));
    let same_typed = methods.iter().any(|m| m.params.windows(2).any(|w| w[0].vt == w[1].vt));
    let mut classes = vec![if dynamic { "dynamic(ref)" } else { "static(delegate_by trait)" }];
    if same_sig {
        classes.push("same_signature_methods");
    }
    if same_typed {
        classes.push("adjacent_same_typed_args");
    }
    if max_deps > 0 {
        classes.push("further_dependencies");
    }
    if any_async {
        classes.push(if use_async_trait { "async_with_async_trait" } else { "async_static" });
    }
    if not_send_blocks {
        classes.push("maybe_send_with_not_send_block_futures");
    }
    if maybe_send_dyn {
        classes.push("dynamic_async_maybe_send");
    }
    if n_targets >= 3 {
        classes.push("three_targets");
    }
    if mut_method {
        classes.push(if mut_typed { "mut_self_method_typed_receiver" } else { "mut_self_method" });
    }
    if hygiene_trait.is_some() {
        classes.push("trait_from_macro_rules_with_same_spelled_parameters");
    }
    if hygiene_block.is_some() {
        classes.push("block_from_macro_rules_with_same_spelled_parameters");
    }
    if impl_named && hygiene_block.is_none() {
        classes.push("block_fn_parameter_named___impl");
    }
    if assoc_fn_trait {
        classes.push("delegated_trait_with_an_associated_fn_without_receiver");
    }
    if let Some(k) = borrow_kind {
        classes.push(["borrowed_return:receiver_elided", "borrowed_return:receiver_named", "borrowed_return:argument_named", "borrowed_return:receiver_named_and_elided", "borrowed_return:receiver_elided_next_to_reference_argument", "borrowed_return:nested_elided_in_elided_reference", "borrowed_return:nested_elided_in_elided_reference_next_to_reference_argument", "borrowed_return:typed_receiver_named", "borrowed_return:block_dependency_with_anonymous_lifetime", "borrowed_return:receiver_with_anonymous_lifetime"][k]);
    }
    if gen_method.is_some() {
        classes.push("method_with_type_and_const_parameters");
    }
    if methods.iter().any(|m| m.typed_receiver) {
        classes.push("typed_reference_receiver");
    }
    if byval_method.is_some() {
        classes.push("by_value_self_method");
    }
    if cfg_alt {
        classes.push("cfg_alternatives_in_blocks_after_other_attributes");
    }
    if dflt_pat {
        classes.push("defaulted_method_with_parameter_patterns");
    }
    if dflt_inline {
        classes.push("defaulted_method_with_a_codegen_hint_under_deny_unused_attributes");
    }
    if where_self {
        classes.push("trait_where_clause_on_self");
    }
    let mut extras: Vec<String> = vec![];
    if let Some(k) = borrow_kind {
        extras.push(borrow_method(k, 0).0);
    }
    if gen_method.is_some() {
        extras.push("fn convert<W: Debug + Default, const K: usize>(&self, w: W) -> String".into());
    }
    if let Some(a) = byval_method {
        extras.push(format!("{}fn consume(self, x: i32) -> String", if a { "async " } else { "" }));
    }
    if dflt_pat {
        extras.push(format!("{}fn combine(&self, (a, b): (i32, i32), N(c): N, mut d: i32) -> String {{ .. }}", if dflt_inline { "#[inline / cold] " } else { "" }));
    }
    if where_self {
        extras.push("[trait Tr where Self: Mark]".into());
    }
    if cfg_alt {
        extras.push("[each block has a `/// doc #[inline] #[cfg(any())]` alternative of its first fn]".into());
    }
    let real: String = src.lines().filter(|l| !l.starts_with("/*TWIN*/")).collect::<Vec<_>>().join("\n");
    let twin: String = src.lines().filter(|l| !l.starts_with("/*GEN*/")).collect::<Vec<_>>().join("\n");
    let summary = format!(
        "#[entrait({trait_attr})] {}trait Tr {{ {} }} with {n_targets} competing `#[entrait{}] impl TrImpl for X_k` blocks",
        at.trim(),
        methods.iter().map(trait_sig).chain(extras.iter().cloned()).collect::<Vec<_>>().join("; "),
        if dynamic { "(ref)" } else { "" }
    );
    Case { src: real, twin, summary, nontrivial: methods.len() >= 2 || same_typed || max_deps > 0, classes }
}

fn run_single(name: &str, src: &str) -> Result<(String, String), String> {
    let mut b = Batch::new(name, Opts { feature_unimock: false, members: 1, ..Default::default() });
    b.add("c00000", src.to_string());
    let out = b.build_and_run();
    b.cleanup();
    if let Some(d) = out.compile_failed.values().next() {
        return Err(d.first().map(|x| x.rendered.clone()).unwrap_or_default());
    }
    out.ran.get("c00000").cloned().ok_or_else(|| "no result".to_string())
}

pub const TAPE_LEN: usize = 160;

pub fn run(ctx: &mut Ctx) {
    ctx.rule = "cases = a delegated trait (1..4 methods, repeated signatures, adjacent equal types, &mut arguments, sync/async with and without async_trait), static (`delegate_by = DelegateTr`) or \
                dynamic (`delegate_by = ref`), with 2..3 competing target types each carrying an `#[entrait] impl TrImpl for X_k` block whose fns use 0..4 further entrait dependencies of `Impl<T>` (including two instantiations of one generic trait), \
                one optional extra method returning a borrow (from the receiver / dependency with an elided or a named lifetime, or from an argument), and one application per target; every method is called through Impl<A_k> and directly as `X_k::m(&app, ..)` with distinct values; results and one-entry traces \
                (target tag, fn tag, deps address, args, sum of further dependencies) must agree; non-trivial = >=2 targets and (>=2 methods, >=2 same-typed args or >=1 further dependency); distinct = distinct program text"
        .into();
    let excl: Vec<usize> = vec![];
    let n = ctx.n(1000, 8000) as usize;
    let tapes = crate::drive::gen_tapes(ctx.seed, 700, n, TAPE_LEN);
    let cases: Vec<Case> = tapes.iter().map(|tp| gen_case(&mut Tape::new(tp), &excl)).collect();
    let mut batch = Batch::new("c07", Opts { feature_unimock: false, members: 16, ..Default::default() });
    for (i, c) in cases.iter().enumerate() {
        batch.add(&format!("c{i:05}"), c.src.clone());
    }
    let out = batch.build_and_run();
    batch.cleanup();
    super::common::crosscheck_records(ctx, &out.records);
    for (id, (status, msg)) in &out.ran {
        let i: usize = id[1..].parse().unwrap_or(0);
        let case = &cases[i];
        if msg.contains("__REMOVED__") {
            ctx.class("dropped_compile_error");
            continue;
        }
        ctx.count_eval();
        for c in &case.classes {
            ctx.class(c);
        }
        if status == "ok" {
            if case.nontrivial {
                ctx.nontrivial(&case.src);
                ctx.sample(|| json!(case.summary));
            }
            continue;
        }
        if msg.contains("HARNESS") {
            crate::ev::inconclusive(&format!("client harness fault: {msg}\n{}", case.src));
        }
        ctx.violation(
            &format!("a call on Impl<T> did not reach the selected implementation block as stated ({status}): {msg} -- in {}", case.summary),
            &json!({"engine": "E2", "src": case.src, "summary": case.summary}),
        );
        return;
    }
    let failed: Vec<(String, String, String, String)> = out
        .compile_failed
        .iter()
        .map(|(id, d)| {
            let i: usize = id[1..].parse().unwrap_or(0);
            (cases[i].summary.clone(), cases[i].src.clone(), cases[i].twin.clone(), d.first().map(|x| format!("{} {}", x.code, x.message)).unwrap_or_default())
        })
        .collect();
    let (violations, faults) = super::common::judge_compile_failures(ctx, "c07", false, &failed, "the delegation chain does not type-check");
    ctx.extra.insert("generator_invalid".into(), json!(faults));
    if violations == 0 && faults * 50 > cases.len() {
        crate::ev::inconclusive(&format!("{faults} of {} C07 programs have a twin that does not compile (generator fault); first: {:?}", cases.len(), failed.first().map(|f| (&f.0, &f.3))));
    }
}

pub fn replay(ctx: &mut Ctx, v: &Value) {
    ctx.count_eval();
    match run_single("c07-replay", &super::s(v, "src")) {
        Err(e) => {
            // (stored programs compile on the tree they were stored for: this check judges compile failures)
            ctx.violation(&format!("program does not compile: {}", e.lines().find(|l| l.starts_with("error")).or(e.lines().next()).unwrap_or("")), v);
        }
        Ok((st, msg)) => {
            if st != "ok" {
                ctx.violation(&format!("a call on Impl<T> did not reach the selected implementation block: {msg}"), v);
            }
        }
    }
}
