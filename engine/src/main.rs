use engine::{ev, props};

use ev::{Ctx, Tier};

fn usage() -> ! {
    eprintln!("usage: engine <C01..C20> [--tier quick|thorough] [--replay <file>] [--seed N]");
    std::process::exit(2)
}

fn main() {
    let args: Vec<String> = std::env::args().skip(1).collect();
    if args.is_empty() {
        usage();
    }
    let id = args[0].clone();
    if id == "mkcorpus" {
        engine::fuzzrun::mkcorpus(&args[1], args[2].parse().unwrap_or(40), 300);
        return;
    }
    if id == "warm" {
        engine::e2::warm();
        return;
    }
    let mut tier = match std::env::var("VERIF_TIER").as_deref() {
        Ok("thorough") => Tier::Thorough,
        _ => Tier::Quick,
    };
    let mut seed: u64 = std::env::var("VERIF_SEED").ok().and_then(|s| s.trim().parse::<i64>().ok()).map(|v| v as u64).unwrap_or(0);
    let mut replay: Option<String> = None;
    let mut i = 1;
    while i < args.len() {
        match args[i].as_str() {
            "--tier" => {
                i += 1;
                tier = match args.get(i).map(|s| s.as_str()) {
                    Some("quick") => Tier::Quick,
                    Some("thorough") => Tier::Thorough,
                    _ => usage(),
                };
            }
            "--seed" => {
                i += 1;
                seed = args.get(i).and_then(|s| s.parse::<i64>().ok()).map(|v| v as u64).unwrap_or_else(|| usage());
            }
            "--replay" => {
                i += 1;
                replay = Some(args.get(i).cloned().unwrap_or_else(|| usage()));
            }
            _ => usage(),
        }
        i += 1;
    }
    if let ("C20", Ok(spec)) = (id.as_str(), std::env::var("C20_CHILD")) {
        props::c20::child_main(seed, &spec);
    }
    let mut ctx = Ctx::new(&id, tier, seed);
    if let Some(path) = replay {
        ctx.replay_mode = true;
        let v = match ev::read_json(std::path::Path::new(&path)) {
            Ok(v) => v,
            Err(e) => ev::inconclusive(&e),
        };
        props::replay(&mut ctx, &v);
        let code = ctx.finish();
        if code == 0 {
            println!("replay passed: {path}");
        }
        std::process::exit(code);
    }
    props::run(&mut ctx);
    std::process::exit(ctx.finish());
}
