//! C10 — mock code is generated only when enabled and is test-gated unless exported (exhaustive lattice; E1 + E2).
//!
//! The full lattice {entrait, entrait_export} x {unimock feature on, off} x unimock {absent, bare, =true, =false} x
//! mock_api {absent, present} x mockall {absent, bare, =true, =false} x export {absent, bare, =true, =false; fn/mod only}
//! x {fn, mod, trait} is enumerated. Truth table, written from the statement:
//!   unimock_on = explicit ?: feature;  unimock attr emitted iff unimock_on && (mock_api || target == trait);
//!   mockall attr emitted iff the option is true;  exported = explicit ?: (macro is entrait_export);
//!   every emitted mock attr is wrapped in cfg_attr(test, ..) iff !exported.
//! E1 reads the attribute list of the emitted trait (feature -> `_unimock` variant). E2 builds the lattice through the facade
//! four times (feature x cfg(test)); the recorder shows which variant the facade selected and what it emitted, and run-time
//! probes observe the consequence (`Unimock: Trait`, the mockall struct) = emitted && (exported || cfg(test)).

use crate::e1::{self, Outcome};
use crate::e2::{Batch, Opts};
use crate::ev::Ctx;
use quote::ToTokens;
use serde_json::{json, Value};

#[derive(Clone, Debug, PartialEq)]
pub struct Point {
    pub export_macro: bool,
    pub feature: bool,
    pub unimock: Option<(bool, bool)>, // (value, written bare)
    pub mock_api: bool,
    pub mockall: Option<(bool, bool)>,
    pub export: Option<(bool, bool)>,
    pub target: &'static str,
}

#[derive(Clone, Debug, PartialEq)]
pub struct Expect {
    pub unimock_emitted: bool,
    pub mockall_emitted: bool,
    pub exported: bool,
}

impl Point {
    pub fn expect(&self) -> Expect {
        let unimock_on = self.unimock.map(|u| u.0).unwrap_or(self.feature);
        Expect {
            unimock_emitted: unimock_on && (self.mock_api || self.is_trait()),
            mockall_emitted: self.mockall.map(|m| m.0).unwrap_or(false),
            exported: self.export.map(|e| e.0).unwrap_or(self.export_macro),
        }
    }
    /// an entraited trait, with or without a delegation target
    pub fn is_trait(&self) -> bool {
        self.target == "trait" || self.target == "trait_target"
    }
    fn opt(name: &str, v: Option<(bool, bool)>) -> Option<String> {
        v.map(|(val, bare)| if bare && val { name.to_string() } else { format!("{name} = {val}") })
    }
    pub fn options(&self, order: usize) -> Vec<String> {
        let mut o: Vec<String> = vec![];
        if let Some(x) = Self::opt("unimock", self.unimock) {
            o.push(x);
        }
        if self.mock_api {
            o.push("mock_api = TheMock".into());
        }
        if let Some(x) = Self::opt("mockall", self.mockall) {
            o.push(x);
        }
        if let Some(x) = Self::opt("export", self.export) {
            o.push(x);
        }
        // a deterministic rotation stands in for "random option order"
        if !o.is_empty() {
            let k = order % o.len();
            o.rotate_left(k);
        }
        o
    }
    pub fn attr(&self, order: usize) -> String {
        let o = self.options(order);
        match self.target {
            "trait" => o.join(", "),
            // a delegation target next to the options: the mocks belong to the entraited trait, not to the target trait
            "trait_target" => std::iter::once(["TheTraitImpl, delegate_by = DelegateTheTrait", "TheTraitImpl, delegate_by = ref"][order % 2].to_string()).chain(o).collect::<Vec<_>>().join(", "),
            _ => std::iter::once(format!("{}TheTrait", Self::vis(order))).chain(o).collect::<Vec<_>>().join(", "),
        }
    }
    /// the trait's visibility rotates through the lattice: it must not influence which mocks exist or how they are gated
    pub fn vis(order: usize) -> &'static str {
        ["pub ", "pub(crate) ", ""][order % 3]
    }
    pub fn item(&self, order: usize) -> String {
        match self.target {
            "fn" => "pub fn the_fn(_deps: &impl ::core::any::Any, x: i32) -> i32 { x }".to_string(),
            "mod" => "pub mod m { pub fn the_fn(_deps: &impl ::core::any::Any, x: i32) -> i32 { x } }".to_string(),
            // a concrete dependency: the generated trait carries a *nested* entrait invocation of its own
            "fn_concrete" => "pub fn the_fn(_deps: &Conf, x: i32) -> i32 { x }".to_string(),
            _ => format!("{}trait TheTrait {{ fn the_fn(&self, x: i32) -> i32; }}", Self::vis(order)),
        }
    }
    /// the macro as the facade would select it
    pub fn e1_macro(&self) -> &'static str {
        match (self.export_macro, self.feature) {
            (false, false) => "entrait",
            (true, false) => "entrait_export",
            (false, true) => "entrait_unimock",
            (true, true) => "entrait_export_unimock",
        }
    }
    pub fn describe(&self) -> String {
        format!("#[{}({})] {} [feature unimock {}]", if self.export_macro { "entrait_export" } else { "entrait" }, self.attr(0), self.target, if self.feature { "on" } else { "off" })
    }
}

pub fn lattice() -> Vec<Point> {
    let tri = |with_bare: bool| -> Vec<Option<(bool, bool)>> {
        let mut v = vec![None, Some((true, false)), Some((false, false))];
        if with_bare {
            v.insert(1, Some((true, true)));
        }
        v
    };
    let mut out = vec![];
    for export_macro in [false, true] {
        for feature in [false, true] {
            for unimock in tri(true) {
                for mock_api in [false, true] {
                    for mockall in tri(true) {
                        for target in ["fn", "mod", "trait", "fn_concrete", "trait_target"] {
                            let exports = if target.starts_with("trait") { vec![None] } else { tri(true) };
                            for export in exports {
                                out.push(Point { export_macro, feature, unimock, mock_api, mockall, export, target });
                            }
                        }
                    }
                }
            }
        }
    }
    out
}

/// Observed mock attributes on the emitted trait: (unimock present, gated), (mockall present, gated)
fn observe(trait_attrs: &[syn::Attribute]) -> Result<((bool, bool), (bool, bool)), String> {
    let mut uni = (false, false);
    let mut mal = (false, false);
    for a in trait_attrs {
        let toks = crate::tok::toks(a.to_token_stream());
        let mut ids = vec![];
        crate::tok::idents(&toks, &mut ids);
        let gated = a.path().is_ident("cfg_attr");
        if gated && ids.get(1).map(|s| s.as_str()) != Some("test") {
            continue;
        }
        let is_uni = ids.iter().any(|i| i == "__unimock");
        let is_mal = ids.iter().any(|i| i == "automock");
        if is_uni {
            if uni.0 {
                return Err("two unimock derivations on one trait".into());
            }
            uni = (true, gated);
        }
        if is_mal {
            if mal.0 {
                return Err("two mockall derivations on one trait".into());
            }
            mal = (true, gated);
        }
    }
    Ok((uni, mal))
}

fn find_trait(file: &syn::File) -> Option<&syn::ItemTrait> {
    fn rec<'a>(items: &'a [syn::Item]) -> Option<&'a syn::ItemTrait> {
        for i in items {
            match i {
                syn::Item::Trait(t) if t.ident == "TheTrait" => return Some(t),
                syn::Item::Mod(m) => {
                    if let Some((_, items)) = &m.content {
                        if let Some(t) = rec(items) {
                            return Some(t);
                        }
                    }
                }
                _ => {}
            }
        }
        None
    }
    rec(&file.items)
}

/// The leaf trait of a concrete-dependency fn carries `#[::entrait::entrait(..)]` itself: expand that nested invocation the
/// way the facade would (feature -> `_unimock` variant) and return every mock attribute the final trait ends up with.
fn final_trait_attrs(p: &Point, tr: &syn::ItemTrait) -> Result<Vec<syn::Attribute>, String> {
    let nested = tr.attrs.iter().position(|a| a.path().segments.last().map(|s| s.ident == "entrait").unwrap_or(false));
    let Some(pos) = nested else { return Ok(tr.attrs.clone()) };
    let mut inner = tr.clone();
    let attr = inner.attrs.remove(pos);
    let args = match &attr.meta {
        syn::Meta::List(l) => l.tokens.clone(),
        _ => proc_macro2::TokenStream::new(),
    };
    let variant = if p.feature { "entrait_unimock" } else { "entrait" };
    match e1::expand_ts(variant, args, inner.to_token_stream()) {
        e1::Expansion::Tokens(ts) => {
            let file: syn::File = syn::parse2(ts).map_err(|e| format!("nested expansion does not parse: {e}"))?;
            let t2 = find_trait(&file).ok_or("no trait `TheTrait` in the nested expansion")?;
            Ok(t2.attrs.clone())
        }
        e1::Expansion::Panic(m) => Err(format!("HARNESS: nested expansion panicked: {m}")),
    }
}

pub fn judge_tokens(p: &Point, ts: proc_macro2::TokenStream) -> Result<(), String> {
    let file: syn::File = syn::parse2(ts).map_err(|e| format!("expansion does not parse: {e}"))?;
    let tr = find_trait(&file).ok_or("no trait `TheTrait` in the expansion")?;
    // no other generated trait (delegation target, selector) derives a mock
    for it in &file.items {
        if let syn::Item::Trait(other) = it {
            if other.ident != "TheTrait" {
                let ((uni, _), (mal, _)) = observe(&other.attrs)?;
                if uni || mal {
                    return Err(format!("the generated trait `{}` carries a {} derivation (mocks belong to the entraited trait only)", other.ident, if uni { "unimock" } else { "mockall" }));
                }
            }
        }
    }
    let attrs = final_trait_attrs(p, tr)?;
    let ((uni, uni_gated), (mal, mal_gated)) = observe(&attrs)?;
    let want = p.expect();
    if uni != want.unimock_emitted {
        return Err(format!("unimock derivation is {} but should be {}", if uni { "attached" } else { "absent" }, if want.unimock_emitted { "attached" } else { "absent" }));
    }
    if mal != want.mockall_emitted {
        return Err(format!("mockall derivation is {} but should be {}", if mal { "attached" } else { "absent" }, if want.mockall_emitted { "attached" } else { "absent" }));
    }
    if uni && uni_gated == want.exported {
        return Err(format!("unimock derivation is {} but the invocation is {}", if uni_gated { "wrapped in cfg_attr(test, ..)" } else { "unconditional" }, if want.exported { "exporting" } else { "not exporting" }));
    }
    if mal && mal_gated == want.exported {
        return Err(format!("mockall derivation is {} but the invocation is {}", if mal_gated { "wrapped in cfg_attr(test, ..)" } else { "unconditional" }, if want.exported { "exporting" } else { "not exporting" }));
    }
    Ok(())
}

fn e1_leg(ctx: &mut Ctx, points: &[Point]) -> bool {
    for (i, p) in points.iter().enumerate() {
        for order in 0..3usize {
            ctx.count_eval();
            let attr = p.attr(i + order);
            let item = p.item(i + order);
            match e1::outcome(p.e1_macro(), &attr, &item) {
                Ok(Outcome::Accepted(_, ts)) => {
                    if let Err(e) = judge_tokens(p, ts) {
                        ctx.violation(
                            &format!("{e} -- {}", p.describe()),
                            &json!({"engine": "E1", "macro": p.e1_macro(), "attr": attr, "item": item, "point": format!("{p:?}"),
                                    "expect": {"unimock": p.expect().unimock_emitted, "mockall": p.expect().mockall_emitted, "exported": p.expect().exported}}),
                        );
                        return false;
                    }
                }
                Ok(Outcome::Rejected(m)) => {
                    ctx.violation(&format!("a lattice point was rejected: {m} -- {}", p.describe()), &json!({"engine": "E1", "macro": p.e1_macro(), "attr": attr, "item": item}));
                    return false;
                }
                Ok(Outcome::Panic(m)) => crate::ev::inconclusive(&format!("macro panicked on a lattice point: {m}")),
                Err(e) => crate::ev::inconclusive(&e),
            }
        }
        let w = p.expect();
        if w.unimock_emitted || w.mockall_emitted || p.unimock == Some((false, false)) || p.mockall == Some((false, false)) || p.export == Some((false, false)) {
            ctx.nontrivial(&format!("{p:?}"));
            ctx.sample(|| json!(p.describe()));
        }
    }
    true
}

// ---------- E2 ----------

fn e2_case(p: &Point, id: &str) -> String {
    // one module per lattice point; probes are uniform expressions that compile whether or not the mocks exist:
    // glob-imported fallbacks `MockTheTrait` / `TheMock` are shadowed by the items mockall / unimock generate next to the trait
    let mac = if p.export_macro { "::entrait::entrait_export" } else { "::entrait::entrait" };
    let order: usize = id.trim_start_matches(|c: char| !c.is_ascii_digit()).parse().unwrap_or(0);
    let attr = p.attr(order);
    let mut s = String::from("#![allow(warnings)]\nuse ::core::marker::PhantomData;\n");
    // (the API of a single fn is a unit struct `TheMock`; for modules and traits it is a module `TheMock` of per-method structs)
    let (fb, api_ty) = if p.target == "fn" || p.target == "fn_concrete" {
        ("mod fallback { pub struct MockTheTrait; pub struct TheMock; }\nuse fallback::*;\n", "TheMock")
    } else {
        ("mod fallback { pub struct MockTheTrait; pub mod TheMock { pub struct the_fn; } }\nuse fallback::*;\n", "TheMock::the_fn")
    };
    let probes = format!("fn probe_mockall() -> bool {{ !::std::any::type_name::<MockTheTrait>().contains(\"fallback\") }}\nfn probe_api() -> bool {{ !::std::any::type_name::<{api_ty}>().contains(\"fallback\") }}\n");
    match p.target {
        "mod" => s.push_str(&format!(
            "#[{mac}({attr})]\npub mod m {{\n    {}    pub fn the_fn(_deps: &impl ::core::any::Any, x: i32) -> i32 {{ x }}\n    {}    pub static PROBES: (fn() -> bool, fn() -> bool) = (probe_mockall, probe_api);\n}}\nfn probe_mockall() -> bool {{ (m::PROBES.0)() }}\nfn probe_api() -> bool {{ (m::PROBES.1)() }}\n",
            fb.replace('\n', "\n    "),
            probes.replace('\n', "\n    ")
        )),
        "fn_concrete" => s.push_str(&format!("pub struct Conf;\n{fb}#[{mac}({attr})]\n{}\n{probes}", p.item(order))),
        _ => {
            // every other time the options that are written bare come from the caller of a `macro_rules!` macro that holds the
            // item (`$o:ident` fragments): what the macro generates for the mock libraries must not depend on where an option's
            // tokens came from
            let opts = p.options(order);
            let bare: Vec<String> = opts.iter().filter(|o| !o.contains('=')).cloned().collect();
            if order % 2 == 1 && !bare.is_empty() && (p.target == "fn" || p.target == "trait") {
                let mut fixed: Vec<String> = if p.target == "fn" { vec![format!("{}TheTrait", Point::vis(order))] } else { vec![] };
                fixed.extend(opts.iter().filter(|o| o.contains('=')).cloned());
                let sep = if fixed.is_empty() { "" } else { ", " };
                s.push_str(&format!(
                    "{fb}macro_rules! __mk_item {{ ($($o:ident),*) => {{\n#[{mac}({}{sep}$($o),*)]\n{}\n}} }}\n__mk_item!({});\n{probes}",
                    fixed.join(", "),
                    p.item(order),
                    bare.join(", ")
                ));
            } else if order % 4 == 2 && (p.target == "fn" || p.target == "trait") {
                // ... or the trait's *name* comes from the caller (`getter!(Foo)`), everything else from the macro body
                let item = p.item(order).replace("trait TheTrait", "trait $t");
                let attr_t = if p.target == "fn" { attr.replacen("TheTrait", "$t", 1) } else { attr.clone() };
                s.push_str(&format!("{fb}macro_rules! __mk_item {{ ($t:ident) => {{\n#[{mac}({attr_t})]\n{item}\n}} }}\n__mk_item!(TheTrait);\n{probes}"));
            } else if order % 4 == 0 && (p.target == "fn" || p.target == "trait") {
                // ... or the whole item comes from the caller (`$i:item`) and the attribute is written in the macro body
                s.push_str(&format!("{fb}macro_rules! __mk_item {{ ($i:item) => {{\n#[{mac}({attr})]\n$i\n}} }}\n__mk_item! {{ {} }}\n{probes}", p.item(order)));
            } else {
                s.push_str(&format!("{fb}#[{mac}({attr})]\n{}\n{probes}", p.item(order)));
            }
        }
    }
    s.push_str("struct Probe<T>(PhantomData<T>);\ntrait Fallback { fn has(&self) -> bool { false } }\nimpl<T> Fallback for Probe<T> {}\nimpl<T: TheTrait> Probe<T> { fn has(&self) -> bool { true } }\n");
    // the unimock derivation is observed through the named API when there is one, else (traits) through `Unimock: TheTrait`
    let uni_probe = if p.target == "fn_concrete" {
        // no blanket impl exists for a concrete-dependency fn: `Unimock: TheTrait` holds iff a unimock derivation is active
        if p.feature {
            "Probe::<::unimock::Unimock>(PhantomData).has()"
        } else {
            "false"
        }
    } else if p.mock_api {
        "probe_api()"
    } else if p.target == "trait" && p.feature {
        "Probe::<::unimock::Unimock>(PhantomData).has()"
    } else {
        "false"
    };
    s.push_str(&format!(
        "pub fn run() -> Vec<String> {{\n    let unimock_derived: bool = {uni_probe};\n    let mockall_struct: bool = probe_mockall();\n    vec![format!(\"OBS unimock_derived={{}} mockall_struct={{}}\", unimock_derived, mockall_struct)]\n}}\n"
    ));
    s
}

fn e2_leg(ctx: &mut Ctx, points: &[Point]) -> bool {
    for feature in [false, true] {
        for cfg_test in [false, true] {
            // (points with a delegation target are judged on the tokens only: E1)
            let pts: Vec<&Point> = points.iter().filter(|p| p.feature == feature && p.target != "trait_target").collect();
            let mut batch = Batch::new(&format!("c10-{}-{}", if feature { "unimock" } else { "plain" }, if cfg_test { "test" } else { "notest" }), Opts { feature_unimock: feature, cfg_test, members: if cfg_test { 4 } else { 16 }, ..Default::default() });
            for (i, p) in pts.iter().enumerate() {
                let id = format!("c{i:05}");
                batch.add(&id, e2_case(p, &id));
            }
            let out = batch.build_and_run();
            batch.cleanup();
            // the facade must have selected the variant that corresponds to (macro name, feature)
            for r in &out.records {
                let want_suffix = if feature { "_unimock" } else { "" };
                let ok = match r.macro_name.as_str() {
                    "entrait" | "entrait_export" => !feature,
                    "entrait_unimock" | "entrait_export_unimock" => feature,
                    _ => true,
                };
                // nested invocations emitted by the macro itself go through `::entrait::entrait` too, so every record counts
                if !ok {
                    ctx.violation(
                        &format!("with the `unimock` feature {} the facade dispatched to `{}` (expected a `*{want_suffix}` variant)", if feature { "on" } else { "off" }, r.macro_name),
                        &json!({"engine": "E2", "kind": "facade", "feature": feature, "macro": r.macro_name}),
                    );
                    return false;
                }
            }
            super::common::crosscheck_records(ctx, &out.records);
            for (i, p) in pts.iter().enumerate() {
                let id = format!("c{i:05}");
                ctx.count_eval();
                let w = p.expect();
                let active = w.exported || cfg_test;
                // unimock derivation active without the feature: `::entrait::__unimock` does not exist => must not compile
                let must_fail = w.unimock_emitted && active && !feature;
                let failed = out.compile_failed.get(&id);
                let here = format!("{} [cfg(test) {}]", p.describe(), if cfg_test { "on" } else { "off" });
                if must_fail {
                    match failed {
                        Some(d) if d.iter().any(|x| x.message.contains("__unimock") || x.rendered.contains("__unimock")) => {
                            ctx.class("unimock_emitted_without_feature:rejected_as_expected");
                            continue;
                        }
                        Some(d) => crate::ev::inconclusive(&format!("lattice point failed with an unrelated error: {} -- {here}", d.first().map(|x| x.rendered.clone()).unwrap_or_default())),
                        // (whether the derivation was emitted is decided by the E1 leg on the tokens; here the missing
                        // `::entrait::__unimock` is only the channel through which an active one shows without the feature -
                        // a tree on which such a program compiles needs another channel, not a verdict)
                        None => crate::ev::inconclusive(&format!("an active unimock derivation compiles without the `unimock` feature: the observation channel of this leg no longer applies -- {here}")),
                    }
                }
                if let Some(d) = failed {
                    ctx.violation(
                        &format!("a lattice point does not compile: {} -- {here}", d.first().map(|x| format!("{} {}", x.code, x.message)).unwrap_or_default()),
                        &json!({"engine": "E2", "kind": "lattice", "feature": feature, "cfg_test": cfg_test, "src": e2_case(p, &id), "expect": "OBS"}),
                    );
                    return false;
                }
                let obs = out.ran.get(&id).map(|(_, m)| m.clone()).unwrap_or_default();
                // (a trait without `mock_api` can only be observed through `Unimock: TheTrait`, which needs the feature)
                let observable = if p.target == "fn_concrete" { feature } else { p.mock_api || (p.target == "trait" && feature) };
                let want = format!("OBS unimock_derived={} mockall_struct={}", w.unimock_emitted && active && observable, w.mockall_emitted && active);
                if obs != want {
                    ctx.violation(
                        &format!("observed `{obs}` but expected `{want}` (= emitted && (exported || cfg(test))) -- {here}"),
                        &json!({"engine": "E2", "kind": "lattice", "feature": feature, "cfg_test": cfg_test, "src": e2_case(p, &id), "expect": want}),
                    );
                    return false;
                }
                ctx.class(&format!("e2:feature={feature},cfg_test={cfg_test}"));
            }
        }
    }
    true
}

pub fn run(ctx: &mut Ctx) {
    ctx.rule = "the full lattice {entrait, entrait_export} x feature {on, off} x unimock {absent, bare, =true, =false} x mock_api {absent, present} x mockall {absent, bare, =true, =false} x export \
                {absent, bare, =true, =false; fn/mod only} x {fn, mod, trait, fn with a concrete dependency}: every point is expanded in-process in 3 option orders (E1, `_unimock` variants model the feature) and compiled through \
                the facade in 4 builds (feature x cfg(test)) with run-time probes for `Unimock: TheTrait` and the mockall struct (E2); non-trivial = points where a mock derivation is expected or an \
                explicit `false` overrides a default - counted distinct by point"
        .into();
    ctx.assumptions.push("`export` on a trait is an unsupported option (C17), not a lattice point; with the feature off an active unimock derivation is observed as the expected compile error on `::entrait::__unimock`".into());
    let points = lattice();
    ctx.extra.insert("lattice_points".into(), json!(points.len()));
    if !e1_leg(ctx, &points) {
        return;
    }
    if !e2_leg(ctx, &points) {
        return;
    }
    ctx.exhaustive = Some(true);
}

pub fn replay(ctx: &mut Ctx, v: &Value) {
    use super::s;
    ctx.count_eval();
    match s(v, "engine").as_str() {
        "E1" => {
            let e = v.get("expect");
            let b = |k: &str| e.and_then(|e| e.get(k)).and_then(|x| x.as_bool());
            match e1::outcome(&s(v, "macro"), &s(v, "attr"), &s(v, "item")) {
                Ok(Outcome::Accepted(_, ts)) => {
                    let file: syn::File = match syn::parse2(ts) {
                        Ok(f) => f,
                        Err(e) => return ctx.violation(&format!("expansion does not parse: {e}"), v),
                    };
                    let Some(tr) = find_trait(&file) else { return ctx.violation("no trait in the expansion", v) };
                    match observe(&tr.attrs) {
                        Ok(((u, ug), (m, mg))) => {
                            if let (Some(wu), Some(wm), Some(we)) = (b("unimock"), b("mockall"), b("exported")) {
                                if u != wu || m != wm || (u && ug == we) || (m && mg == we) {
                                    ctx.violation(&format!("mock derivations (unimock {u} gated {ug}, mockall {m} gated {mg}) differ from the expectation (unimock {wu}, mockall {wm}, exported {we})"), v);
                                }
                            }
                        }
                        Err(e) => ctx.violation(&e, v),
                    }
                }
                Ok(Outcome::Rejected(m)) => ctx.violation(&format!("lattice point rejected: {m}"), v),
                _ => crate::ev::inconclusive("replay: harness trouble"),
            }
        }
        _ => {
            if s(v, "kind") != "lattice" {
                return;
            }
            let feature = v.get("feature").and_then(|b| b.as_bool()).unwrap_or(false);
            let cfg_test = v.get("cfg_test").and_then(|b| b.as_bool()).unwrap_or(false);
            let mut b = Batch::new("c10-replay", Opts { feature_unimock: feature, cfg_test, members: 1, ..Default::default() });
            b.add("c00000", s(v, "src"));
            let out = b.build_and_run();
            b.cleanup();
            let expect = s(v, "expect");
            match (expect.as_str(), out.compile_failed.is_empty()) {
                ("rejected", true) => ctx.violation("program should be rejected but compiles", v),
                ("rejected", false) => {}
                (_, false) => ctx.violation("lattice point does not compile", v),
                (want, true) => {
                    let obs = out.ran.get("c00000").map(|(_, m)| m.clone()).unwrap_or_default();
                    if want.starts_with("OBS ") && obs != want {
                        ctx.violation(&format!("observed `{obs}` but expected `{want}`"), v);
                    }
                }
            }
        }
    }
}
