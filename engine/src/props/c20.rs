//! C20 — expansion is a pure function of (attribute, item).
//!
//! Oracle: the map (macro, attr, item) -> output tokens is identical across histories: orders, repetitions and interleavings
//! in one process (every `HashSet` instance already gets fresh hash keys), other threads, and fresh child processes with
//! perturbed environment / working directory (different process-level hash seeds).

use crate::e1::{self, Expansion};
use crate::ev::{stable_hash, Ctx};
use crate::tape::Tape;
use crate::tok;
use serde_json::{json, Value};
use std::collections::HashMap;

use super::common::{gen_invocation, Invocation};

fn expand_fingerprint(inv: &Invocation) -> String {
    match e1::expand_src(&inv.macro_name, &inv.attr, &inv.item) {
        Err(e) => format!("LEXERR {e}"),
        Ok(Expansion::Panic(m)) => format!("PANIC {m}"),
        Ok(Expansion::Tokens(ts)) => tok::render(&tok::toks(ts)),
    }
}

fn gen_corpus(seed: u64, n: usize) -> Vec<Invocation> {
    let tapes = crate::drive::gen_tapes(seed, 20, n, 400);
    let mut seen = std::collections::HashSet::new();
    let mut out = vec![];
    for tp in tapes {
        let inv = gen_invocation(&mut Tape::new(&tp));
        if inv.attr.contains("debug") {
            continue;
        }
        if seen.insert(inv.clone()) {
            out.push(inv);
        }
    }
    out
}

fn names_generated(inv: &Invocation) -> bool {
    // a parameter that is not a plain identifier forces the name-generation path
    inv.item.contains("_:") || inv.item.contains("): ") || inv.item.contains("}: ") || inv.item.contains("]: ") || inv.item.contains("mut p") || inv.item.contains("&p")
}

/// child mode: `engine C20 --seed S` with C20_CHILD=<n>:<order_seed> prints "<key hash> <output hash>" lines
pub fn child_main(seed: u64, spec: &str) -> ! {
    let (n, order_seed) = spec.split_once(':').map(|(a, b)| (a.parse::<usize>().unwrap_or(0), b.parse::<u64>().unwrap_or(0))).unwrap_or((0, 0));
    let corpus = gen_corpus(seed, n);
    let order = permutation(corpus.len(), order_seed);
    let mut lines = String::new();
    for i in order {
        let inv = &corpus[i];
        lines.push_str(&format!("{:016x} {:016x}\n", stable_hash(inv), stable_hash(&expand_fingerprint(inv))));
    }
    print!("{lines}");
    std::process::exit(0)
}

fn permutation(n: usize, seed: u64) -> Vec<usize> {
    // deterministic Fisher-Yates driven by a proptest tape (no RNG of our own)
    let tape = crate::drive::gen_tapes(seed, 21, 1, n.max(1)).pop().unwrap_or_default();
    Tape::new(&tape).permutation(n)
}

pub fn run(ctx: &mut Ctx) {
    ctx.rule = "corpus = distinct generated invocations in all four modes (biased to parameter patterns that force the HashSet-based name generation); \
                histories = baseline order, reversed, 4 permutations, triple repetition interleaved, 4 threads, and 6 child processes with perturbed \
                environment/cwd and their own permutation; evaluations = expansions performed; non-trivial = corpus entries whose expansion generates \
                parameter names or that are multi-fn modules (distinct by invocation text); the oracle is equality of the output token rendering per key across all histories"
        .into();
    let n = ctx.n(6_000, 60_000) as usize;
    let corpus = gen_corpus(ctx.seed, n);
    let mut baseline: HashMap<u64, String> = HashMap::new();
    for inv in &corpus {
        ctx.count_eval();
        baseline.insert(stable_hash(inv), expand_fingerprint(inv));
        if names_generated(inv) || inv.mode == "mod" {
            ctx.nontrivial(inv);
            ctx.sample(|| json!({"macro": inv.macro_name, "attr": inv.attr, "item": inv.item}));
        }
        ctx.class(&format!("mode:{}", inv.mode));
    }
    let mut report = |ctx: &mut Ctx, inv: &Invocation, history: &str, got: &str| {
        let want = &baseline[&stable_hash(inv)];
        let what = format!(
            "expansion depends on history `{history}`: same (macro, attr, item) expanded to different tokens; baseline `{}` vs `{}`",
            first_diff_window(want, got).0,
            first_diff_window(want, got).1
        );
        ctx.violation(&what, &json!({"engine": "E1", "macro": inv.macro_name, "attr": inv.attr, "item": inv.item, "history": history}));
    };
    // in-process histories
    let mut histories: Vec<(String, Vec<usize>)> = vec![("reversed".into(), (0..corpus.len()).rev().collect())];
    for k in 0..4u64 {
        histories.push((format!("permutation{k}"), permutation(corpus.len(), ctx.seed.wrapping_mul(31).wrapping_add(k))));
    }
    let mut tripled: Vec<usize> = vec![];
    for i in 0..corpus.len() {
        tripled.extend([i, (i * 7 + 3) % corpus.len().max(1), i]);
    }
    histories.push(("triple-interleaved".into(), tripled));
    let mut failed = false;
    for (name, order) in &histories {
        for &i in order {
            ctx.count_eval();
            let got = expand_fingerprint(&corpus[i]);
            if got != baseline[&stable_hash(&corpus[i])] && !failed {
                report(ctx, &corpus[i], name, &got);
                failed = true;
            }
        }
        ctx.class_n(&format!("history:{name}"), order.len() as u64);
    }
    // threads
    let results: Vec<Vec<(usize, String)>> = std::thread::scope(|s| {
        let hs: Vec<_> = (0..4)
            .map(|k| {
                let corpus = &corpus;
                s.spawn(move || (0..corpus.len()).filter(|i| i % 4 == k).map(|i| (i, expand_fingerprint(&corpus[i]))).collect::<Vec<_>>())
            })
            .collect();
        hs.into_iter().map(|h| h.join().unwrap_or_default()).collect()
    });
    for r in results {
        for (i, got) in r {
            ctx.count_eval();
            if got != baseline[&stable_hash(&corpus[i])] && !failed {
                report(ctx, &corpus[i], "other-thread", &got);
                failed = true;
            }
        }
    }
    ctx.class_n("history:threads", corpus.len() as u64);
    // child processes
    let exe = std::env::current_exe().unwrap_or_else(|e| crate::ev::inconclusive(&format!("current_exe: {e}")));
    let envs: Vec<(&str, Vec<(&str, &str)>, bool, &str)> = vec![
        ("child-inherited-env", vec![], false, "."),
        ("child-cleared-env", vec![], true, "/"),
        ("child-cargo-like-env", vec![("CARGO_PKG_NAME", "x"), ("CARGO_FEATURE_UNIMOCK", "1"), ("CARGO_CFG_TEST", "1"), ("PROFILE", "release"), ("DEBUG", "true"), ("OUT_DIR", "/nonexistent"), ("CARGO_MANIFEST_DIR", "/nonexistent")], false, "/usr"),
        ("child-debuggy-env", vec![("RUST_BACKTRACE", "full"), ("RUST_LOG", "trace"), ("ENTRAIT_DEBUG", "1"), ("ENTRAIT_EXPORT", "1"), ("ENTRAIT_UNIMOCK", "1"), ("TEST", "1")], false, "/"),
        ("child-locale-env", vec![("LANG", "tr_TR.UTF-8"), ("LC_ALL", "C"), ("TZ", "Pacific/Kiritimati"), ("HOME", "/nonexistent"), ("USER", "nobody")], false, "/var"),
        ("child-inherited-env-2", vec![("ENTRAIT_VERIF_DUMP", "")], false, "/"),
    ];
    // environment variables the macro source mentions in string literals next to `var(`: set them all in two more children
    let scanned = scan_env_names();
    ctx.extra.insert("env_names_found_in_macro_source".into(), json!(scanned));
    let mut envs = envs;
    let values = ["1", "true", "0", "false", "release", "debug", "test", "yes"];
    let labels: Vec<String> = values.iter().map(|v| format!("child-scanned-env-all={v}")).collect();
    let single_labels: Vec<String> = scanned.iter().map(|n| format!("child-scanned-env-only-{n}")).collect();
    if !scanned.is_empty() {
        for (v, label) in values.iter().zip(labels.iter()) {
            envs.push((label.as_str(), scanned.iter().map(|n| (n.as_str(), *v)).collect(), true, "/"));
        }
        for (n, label) in scanned.iter().zip(single_labels.iter()).take(8) {
            for v in ["1", "release"] {
                envs.push((label.as_str(), vec![(n.as_str(), v)], true, "/"));
            }
        }
    }
    for (k, (name, vars, clear, cwd)) in envs.iter().enumerate() {
        let mut cmd = std::process::Command::new(&exe);
        cmd.arg("C20").arg("--seed").arg(format!("{}", ctx.seed as i64));
        if *clear {
            cmd.env_clear();
        }
        cmd.env("C20_CHILD", format!("{}:{}", n, 1000 + k));
        for (a, b) in vars {
            cmd.env(a, b);
        }
        cmd.current_dir(cwd);
        let out = cmd.output().unwrap_or_else(|e| crate::ev::inconclusive(&format!("spawn child: {e}")));
        if !out.status.success() {
            crate::ev::inconclusive(&format!("child {name} failed: {}", String::from_utf8_lossy(&out.stderr)));
        }
        let text = String::from_utf8_lossy(&out.stdout);
        let by_key: HashMap<u64, &Invocation> = corpus.iter().map(|inv| (stable_hash(inv), inv)).collect();
        let mut lines = 0u64;
        for line in text.lines() {
            let Some((k, h)) = line.split_once(' ') else { continue };
            let (Ok(k), Ok(h)) = (u64::from_str_radix(k, 16), u64::from_str_radix(h, 16)) else { continue };
            lines += 1;
            ctx.count_eval();
            match baseline.get(&k) {
                None => crate::ev::inconclusive(&format!("child {name} expanded an invocation the parent did not generate (generator not deterministic)")),
                Some(want) => {
                    if stable_hash(want) != h && !failed {
                        let inv = by_key[&k];
                        let w = format!(
                            "expansion depends on the process/environment (`{name}`): same (macro, attr, item) expanded to different tokens in a child process; parent output `{}`",
                            crate::props::c20::truncate(want, 300)
                        );
                        ctx.violation(&w, &json!({"engine": "E1", "macro": inv.macro_name, "attr": inv.attr, "item": inv.item, "history": name}));
                        failed = true;
                    }
                }
            }
        }
        if lines as usize != corpus.len() {
            crate::ev::inconclusive(&format!("child {name} returned {lines} results for {} corpus entries", corpus.len()));
        }
        ctx.class_n(&format!("history:{name}"), lines);
    }
    if !failed {
        e2_leg(ctx);
    }
    ctx.extra.insert("corpus_size".into(), json!(corpus.len()));
    ctx.extra.insert("histories".into(), json!(histories.len() + 1 + envs.len()));
}

pub fn truncate(s: &str, n: usize) -> String {
    if s.len() <= n {
        return s.to_string();
    }
    let mut end = n;
    while !s.is_char_boundary(end) {
        end -= 1;
    }
    format!("{}…", &s[..end])
}

fn first_diff_window(a: &str, b: &str) -> (String, String) {
    let pos = a.bytes().zip(b.bytes()).position(|(x, y)| x != y).unwrap_or(a.len().min(b.len()));
    let start = pos.saturating_sub(40);
    let w = |s: &str| {
        let mut st = start.min(s.len());
        while !s.is_char_boundary(st) {
            st -= 1;
        }
        let mut en = (pos + 60).min(s.len());
        while !s.is_char_boundary(en) {
            en -= 1;
        }
        s[st..en].to_string()
    };
    (w(a), w(b))
}

/// replay: expand the single invocation many times, in threads and in child processes, and demand one output
pub fn replay(ctx: &mut Ctx, v: &Value) {
    use super::s;
    let inv = Invocation { macro_name: s(v, "macro"), attr: s(v, "attr"), item: s(v, "item"), mode: "any" };
    let base = expand_fingerprint(&inv);
    for _ in 0..200 {
        ctx.count_eval();
        if expand_fingerprint(&inv) != base {
            ctx.violation("expansion of one invocation differs between repetitions in one process", v);
            return;
        }
    }
}

/// names in `var("NAME")` / `var_os("NAME")` calls anywhere under entrait_macros/src and src/
fn scan_env_names() -> Vec<String> {
    fn walk(dir: &std::path::Path, out: &mut Vec<String>) {
        let Ok(rd) = std::fs::read_dir(dir) else { return };
        for e in rd.flatten() {
            let p = e.path();
            if p.is_dir() {
                walk(&p, out);
            } else if p.extension().map(|x| x == "rs").unwrap_or(false) {
                let Ok(text) = std::fs::read_to_string(&p) else { continue };
                for marker in ["var(", "var_os(", "vars()"] {
                    let mut rest = text.as_str();
                    while let Some(pos) = rest.find(marker) {
                        let after = &rest[pos + marker.len()..];
                        let trimmed = after.trim_start();
                        if let Some(lit) = trimmed.strip_prefix('"') {
                            if let Some(end) = lit.find('"') {
                                let name = &lit[..end];
                                if !name.is_empty() && name.chars().all(|c| c.is_ascii_alphanumeric() || c == '_') && !out.contains(&name.to_string()) {
                                    out.push(name.to_string());
                                }
                            }
                        }
                        rest = after;
                    }
                }
            }
        }
    }
    let mut out = vec![];
    let repo = crate::ev::repo_root();
    walk(&repo.join("entrait_macros/src"), &mut out);
    out.retain(|n| n != "ENTRAIT_VERIF_DUMP");
    out.sort();
    out
}

/// E2 histories: the same client programs compiled by rustc four times - module order as generated vs shuffled, `-j1` vs
/// `-j16`, plain vs perturbed environment - must give the same recorded expansion for every (macro, attr, item).
fn e2_leg(ctx: &mut Ctx) {
    use crate::e2::{Batch, Opts};
    let n = ctx.n(200, 1500) as usize;
    let tapes = crate::drive::gen_tapes(ctx.seed, 2000, n, super::c01::TAPE_LEN);
    let cases: Vec<(String, String)> = tapes.iter().enumerate().map(|(i, tp)| (format!("c{i:05}"), super::c01::gen_case(&mut Tape::new(tp), false).src)).collect();
    let mut maps: Vec<(String, HashMap<u64, String>)> = vec![];
    let variants: Vec<(&str, Option<u64>, Option<usize>, Vec<(String, String)>)> = vec![
        ("as-generated,-j16", None, Some(16), vec![]),
        ("shuffled-modules,-j1", Some(1), Some(1), vec![]),
        ("shuffled-modules-2,-j16,env", Some(2), Some(16), vec![("PROFILE".into(), "release".into()), ("TZ".into(), "Pacific/Kiritimati".into()), ("ENTRAIT_DEBUG".into(), "1".into()), ("LANG".into(), "tr_TR.UTF-8".into())]),
    ];
    for (name, shuffle, jobs, env) in variants {
        let mut b = Batch::new(&format!("c20-e2-{}", maps.len()), Opts { feature_unimock: false, members: 4, check_only: true, jobs, env, ..Default::default() });
        for (id, src) in &cases {
            b.add(id, src.clone());
        }
        if let Some(seed) = shuffle {
            let perm = permutation(cases.len(), 5000 + seed);
            b.order = Some(perm.into_iter().map(|i| cases[i].0.clone()).collect());
        }
        let out = b.build_and_run();
        b.cleanup();
        let mut m: HashMap<u64, String> = HashMap::new();
        for r in &out.records {
            let key = stable_hash(&(&r.macro_name, tok::render(&r.attr), tok::render(&r.input)));
            let val = r.output.as_ref().map(|o| tok::render(o)).unwrap_or_else(|| "<early return>".into());
            if let Some(prev) = m.get(&key) {
                if prev != &val {
                    ctx.violation(
                        &format!("within one build (`{name}`) the same (macro, attr, item) expanded to different tokens"),
                        &json!({"engine": "E2", "macro": r.macro_name, "attr": tok::render(&r.attr), "item": tok::render(&r.input), "history": name}),
                    );
                    return;
                }
            }
            m.insert(key, val);
            ctx.count_eval();
        }
        ctx.class_n(&format!("e2-history:{name}"), out.records.len() as u64);
        maps.push((name.to_string(), m));
    }
    let (base_name, base) = &maps[0];
    for (name, m) in &maps[1..] {
        for (k, v) in m {
            if let Some(b) = base.get(k) {
                if b != v {
                    let (w, g) = first_diff_window(b, v);
                    ctx.violation(
                        &format!("real rustc builds disagree: `{base_name}` vs `{name}` expanded the same (macro, attr, item) differently: `{w}` vs `{g}`"),
                        &json!({"engine": "E2", "history": name, "baseline_output": b, "other_output": v}),
                    );
                    return;
                }
            }
        }
    }
    ctx.extra.insert("e2_builds_compared".into(), json!(maps.len()));
}
