#!/bin/bash
# Builds the framework offline from files on disk only.
set -e
cd "$(dirname "$0")"
export CARGO_NET_OFFLINE=true
mkdir -p work evidence
( cd engine && cargo build --release --offline )
echo "setup done"
