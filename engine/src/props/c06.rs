//! C06 — entraited traits: Impl<T> forwards every method to T (Self / ref / Borrow). E2: recording provider + probes.

use crate::e2::{Batch, Opts};
use crate::ev::Ctx;
use crate::prog::{self, Param, PK, VT};
use crate::tape::Tape;
use serde_json::{json, Value};

#[derive(Clone, Debug)]
pub struct Method {
    pub name: String,
    pub tag: String,
    pub is_async: bool,
    pub params: Vec<Param>,
    pub has_gen: bool,
    /// uses the trait's generic parameter U as the type of an extra trailing parameter
    pub uses_u: bool,
    /// written as `self: &Self` instead of `&self` (same meaning)
    pub typed_receiver: bool,
    /// no written return type: the effect is observable through the trace only
    pub ret_unit: bool,
    /// the bounds of the method's generic parameter are written in a where clause
    pub where_form: bool,
}

impl Method {
    pub fn sig(&self, with_pats: bool) -> String {
        let mut ps = vec![if self.typed_receiver { "self: &Self".to_string() } else { "&self".to_string() }];
        for p in &self.params {
            let pat = if with_pats || p.pk == PK::Wild { p.pat(&self.name) } else { p.name.clone() };
            ps.push(format!("{pat}: {}", p.vt.ty("V")));
        }
        if self.uses_u {
            ps.push("u: U".into());
        }
        let vb = format!("V: ::core::fmt::Debug{}", if self.is_async { " + Send + Sync" } else { "" });
        let (g, w) = match (self.has_gen, self.where_form) {
            (false, _) => (String::new(), String::new()),
            (true, false) => (format!("<{vb}>"), String::new()),
            (true, true) => ("<V>".to_string(), format!(" where {vb}")),
        };
        format!("{}fn {}{g}({}){}{w}", if self.is_async { "async " } else { "" }, self.name, ps.join(", "), if self.ret_unit { "" } else { " -> String" })
    }

    fn body(&self) -> String {
        let mut s = String::from("{\n        let __id = rt::addr(self);\n");
        let mut parts = vec![];
        for (i, p) in self.params.iter().enumerate() {
            if p.pk == PK::Wild {
                continue;
            }
            s.push_str(&format!("        let __a{i} = format!(\"{{:?}}\", {});\n", p.name));
            parts.push(format!("__a{i}.as_str()"));
            if p.vt == VT::MutVec {
                s.push_str(&format!("        {}.push({});\n", p.name, 1000 + i));
            }
        }
        if self.uses_u {
            s.push_str("        let __au = format!(\"{:?}\", u);\n");
            parts.push("__au.as_str()".into());
        }
        if self.is_async {
            s.push_str("        rt::yield_once().await;\n");
        }
        let args = if parts.is_empty() { "String::new()".to_string() } else { format!("[{}].join(\",\")", parts.join(", ")) };
        s.push_str(&format!("        let __r = format!(\"{}|{{}}|{{}}\", __id, {args});\n        rt::trace(__r.clone());\n        {}\n    }}", self.tag, if self.ret_unit { "" } else { "__r" }));
        s
    }

    fn call_args(&self) -> String {
        let mut a: Vec<String> = self.params.iter().enumerate().map(|(i, p)| p.vt.expr(i)).collect();
        if self.uses_u {
            a.push("@U@".into());
        }
        a.join(", ")
    }
}

pub struct Case {
    pub src: String,
    pub twin: String,
    pub summary: String,
    pub nontrivial: bool,
    pub classes: Vec<&'static str>,
    /// (program that must be rejected: the provider borrows for a caller-chosen 'a; its `'static` twin that must compile)
    pub static_probe: (String, String),
}

pub fn gen_case(t: &mut Tape) -> Case {
    let selector = t.weighted(&[3, 1, 3, 2]); // default, Self, ref, Borrow
    let dynamic = selector >= 2;
    let any_async = t.chance(1, 3);
    let use_async_trait = any_async && (dynamic || t.chance(1, 3));
    let generic_trait = t.chance(1, 4);
    // a trait-level lifetime parameter (static selectors: `dyn Tr<'t> + 'static` is a different story)
    let lifetime_trait = !generic_trait && !dynamic && t.chance(1, 5);
    let supertrait = t.chance(1, 4);
    let no_send = any_async && !use_async_trait && t.chance(1, 5);
    // `?Send` with a `dyn` selector (and `#[async_trait(?Send)]`): then nothing asks `T: Send` either
    let no_send_dyn = dynamic && any_async && t.chance(1, 4);
    let n = t.range(1, 5);
    let names = prog::member_names(t, n);
    let mut methods: Vec<Method> = vec![];
    for i in 0..n {
        let m = if i > 0 && t.chance(1, 2) {
            let mut c = methods[i - 1].clone();
            c.name = names[i].clone();
            c.tag = format!("M{i}");
            c
        } else {
            let mut params = prog::gen_params(t, 5, false, false);
            for p in params.iter_mut() {
                if p.vt == VT::Gen {
                    // generic methods are not dyn-compatible: static selectors only
                    if dynamic {
                        p.vt = VT::I32;
                    }
                }
                if p.vt != VT::MutVec && t.chance(1, 12) {
                    p.pk = PK::Wild;
                }
            }
            let has_gen = params.iter().any(|p| p.vt == VT::Gen);
            Method { name: names[i].clone(), tag: format!("M{i}"), is_async: any_async && t.chance(2, 3), params, has_gen, uses_u: (generic_trait || lifetime_trait) && t.flip(), typed_receiver: t.chance(1, 8), ret_unit: t.chance(1, 5), where_form: t.flip() }
        };
        methods.push(m);
    }
    if any_async && !methods.iter().any(|m| m.is_async) {
        methods[0].is_async = true;
    }
    // a method with a default body that no provider overrides: implementors other than Impl<T> rely on it, and Impl<T> has to
    // reach the provider's (inherited) version. An async default needs `Self: Sync` for a Send future.
    let dflt = if t.chance(1, 3) { Some(any_async && (no_send || use_async_trait) && t.flip()) } else { None };
    // an associated type (static selectors: `Impl<T>` takes it from `T`), used by a method of its own
    let assoc = !dynamic && t.chance(1, 4);
    let (assoc_decl, assoc_impl) = if assoc {
        (
            // (the attributes are the declaration's: an alias for the docs is not allowed on a type in an impl)
            "    /// the tag type\n    #[doc(alias = \"Label\")]\n    type Tag: ::core::fmt::Debug + Default;\n    fn tag(&self, x: i32) -> Self::Tag;\n",
            "    type Tag = (i32, u8);\n    fn tag(&self, x: i32) -> (i32, u8) { rt::trace(format!(\"TAG|{}|{}\", rt::addr(self), x)); (x, 7) }\n",
        )
    } else {
        ("", "")
    };
    // an extra method that returns a borrow: from the receiver (elided / named lifetime) or from an argument
    let borrow_kind: Option<usize> = if t.chance(1, 3) { Some(t.choose(3)) } else { None };
    let (borrow_decl, borrow_impl) = match borrow_kind {
        Some(0) => ("    fn tagline(&self, n: u32) -> &str;\n", "    fn tagline(&self, n: u32) -> &str { rt::trace(format!(\"TL|{}|{}\", rt::addr(self), n)); \"tl\" }\n"),
        Some(1) => ("    fn tagline<'a>(&'a self, n: u32) -> &'a str;\n", "    fn tagline<'a>(&'a self, n: u32) -> &'a str { rt::trace(format!(\"TL|{}|{}\", rt::addr(self), n)); \"tl\" }\n"),
        Some(_) => ("    fn tagline<'a>(&self, n: &'a str) -> &'a str;\n", "    fn tagline<'a>(&self, n: &'a str) -> &'a str { rt::trace(format!(\"TL|{}|{}\", rt::addr(self), n)); n }\n"),
        None => ("", ""),
    };
    // a generic method whose type parameter appears in no argument and not in the return type (static selectors:
    // generic methods are not dyn-compatible): the caller names it with a turbofish, the forwarding call has to pass it on
    let phantom = !dynamic && t.chance(1, 4);
    // ... or appears in an argument type only through an associated type (`W::Out`), which infers nothing either
    let phantom_proj = phantom && t.chance(1, 3);
    let (phantom_decl, phantom_impl) = if phantom_proj {
        (
            "    fn sized<W: Proj>(&self, x: W::Out) -> String;\n",
            "    fn sized<W: Proj>(&self, x: W::Out) -> String { let __r = format!(\"SZ|{}|{:?}|{}\", rt::addr(self), x, W::NAME); rt::trace(__r.clone()); __r }\n",
        )
    } else if phantom {
        (
            "    fn sized<W: ::core::fmt::Debug + Default, const K: usize>(&self, x: i32) -> String;\n",
            "    fn sized<W: ::core::fmt::Debug + Default, const K: usize>(&self, x: i32) -> String { let __r = format!(\"SZ|{}|{}|{:?}|{}\", rt::addr(self), x, W::default(), K); rt::trace(__r.clone()); __r }\n",
        )
    } else {
        ("", "")
    };
    // an associated fn without a receiver (static selectors): `Impl<T>`'s is `T`'s
    let selfless = !dynamic && t.chance(1, 5);
    // (its first parameter may have the name the macro uses for the receiver of generated impl-block methods)
    let selfless_impl_named = selfless && t.flip();
    let (selfless_decl, selfless_impl) = if selfless {
        (if selfless_impl_named { "    fn make(__impl: i32, y: i32) -> String;\n" } else { "    fn make(x: i32, y: i32) -> String;\n" }, "    fn make(x: i32, y: i32) -> String { let __r = format!(\"MK|{}|{}\", x, y); rt::trace(__r.clone()); __r }\n")
    } else {
        ("", "")
    };
    // a `&mut self` method (delegation to `Self`): `&mut Impl<T>` has to become `&mut T`
    let mut_method = !dynamic && t.chance(if no_send { 3 } else { 1 }, 5);
    // (async under `?Send`: nothing asks the future to be `Send`, so nothing may ask `T: Send` either - the `!Send` provider probe)
    let mut_async = mut_method && no_send && any_async && !use_async_trait && t.chance(2, 3);
    let (mut_decl, mut_impl) = if mut_async {
        (
            "    async fn bump(&mut self, x: i32) -> String;\n",
            "    async fn bump(&mut self, x: i32) -> String { rt::yield_once().await; let __r = format!(\"BUMP|{}|{}\", rt::addr(self), x); rt::trace(__r.clone()); __r }\n",
        )
    } else if mut_method {
        (
            "    fn bump(&mut self, x: i32) -> String;\n",
            "    fn bump(&mut self, x: i32) -> String { let __r = format!(\"BUMP|{}|{}\", rt::addr(self), x); rt::trace(__r.clone()); __r }\n",
        )
    } else {
        ("", "")
    };
    // the supertrait has a (provided) method of the same name as the trait's first method
    let sup_same_name = supertrait && t.flip();
    let mut opts: Vec<String> = vec![];
    match selector {
        1 => opts.push("delegate_by = Self".into()),
        2 => opts.push("delegate_by = ref".into()),
        3 => opts.push("delegate_by = Borrow".into()),
        _ => {}
    }
    if no_send || no_send_dyn {
        opts.push("?Send".into());
    }
    if t.chance(1, 4) {
        opts.push((*t.pick(&["unimock = false", "mockall = false", "mock_api = TrMock"])).to_string());
    }
    let perm = t.permutation(opts.len());
    let attr: String = perm.into_iter().map(|i| opts[i].clone()).collect::<Vec<_>>().join(", ");
    let trait_where = generic_trait && t.flip();
    // flavours of the trait's type parameter: plain, with a default (`= i64`, used through the default everywhere), or
    // relaxed (`?Sized`, instantiated with `str` and passed as `&U`)
    let generic_flavour = if generic_trait { t.weighted(&[3, 1, 2]) } else { 0 };
    let ub = if generic_flavour == 2 { "?Sized + ::core::fmt::Debug + Send + Sync + 'static" } else { "::core::fmt::Debug + Send + Sync + 'static" };
    let ud = if generic_flavour == 1 { " = i64" } else { "" };
    let tg_owned = if generic_trait { if trait_where { format!("<U{ud}>") } else { format!("<U: {ub}{ud}>") } } else if lifetime_trait { "<'t>".to_string() } else { String::new() };
    let tg = tg_owned.as_str();
    let tw_owned = if trait_where { format!(" where U: {ub}") } else { String::new() };
    let tw = tw_owned.as_str();
    let targ = if generic_trait { ["<i64>", "", "<str>"][generic_flavour] } else if lifetime_trait { "<'static>" } else { "" };
    // with a lifetime-generic trait the extra trailing parameter is `u: &'t str`
    let (u_decl, u_impl) = if lifetime_trait { ("u: &'t str", "u: &'static str") } else if generic_flavour == 2 { ("u: &U", "u: &str") } else { ("u: U", "u: i64") };
    let mut sups: Vec<&str> = vec![];
    if supertrait {
        sups.push("Sup");
    }
    // a supertrait that `Impl<T>` has for some `T` only (the user implements it for `Impl<App>`, not for every `Impl<T>`):
    // the impl for `Impl<T>` can only be for those that have it
    let sup_for_some = supertrait && !dynamic && t.chance(1, 4);
    if sup_for_some {
        sups.push("Sup2");
    }
    // ... next to one that mentions `Self` (and that every type has): each supertrait is its own matter
    let sup_mentions_self = sup_for_some && t.flip();
    if sup_mentions_self {
        sups.push("SupG<Self>");
    }
    if dynamic && any_async {
        sups.push("Sync");
    }
    // a marker supertrait that `Impl<T>` only has when `T` does: with a `dyn` selector nothing else implies it
    // (the providers are `Send`; the `!Send` application then does not get the trait)
    let send_super = dynamic && !any_async && t.chance(1, 4);
    if send_super {
        sups.push("Send");
    }
    if dynamic {
        sups.push("'static");
    }
    let sup_src = if sups.is_empty() { String::new() } else { format!(": {}", sups.join(" + ")) };
    let at = if no_send_dyn { "#[::async_trait::async_trait(?Send)]\n" } else if use_async_trait { "#[::async_trait::async_trait]\n" } else { "" };

    let mut src = String::from("#![allow(warnings)]\nuse crate::rt;\nuse ::core::marker::PhantomData;\n#[derive(Debug, Clone, PartialEq)] pub struct N(pub i32);\n#[derive(Debug, Clone, PartialEq)] pub struct S { pub a: i32 }\n");
    src.push_str("pub trait Proj { type Out: ::core::fmt::Debug; const NAME: &'static str; }\nimpl Proj for u16 { type Out = i32; const NAME: &'static str = \"u16\"; }\n");
    if sup_same_name {
        src.push_str(&format!("pub trait Sup {{ fn {}(&self) -> u8 {{ 0 }} }}\nimpl<T> Sup for ::entrait::Impl<T> {{}}\n", methods[0].name));
    } else {
        src.push_str("pub trait Sup {}\nimpl<T> Sup for ::entrait::Impl<T> {}\n");
    }
    src.push_str("pub trait Sup2 {}\npub trait SupG<X: ?Sized> {}\nimpl<A: ?Sized, B: ?Sized> SupG<B> for A {}\n");
    // users of `delegate_by = Borrow` / `ref` typically import the std trait by name to write their impl
    if dynamic && t.flip() {
        src.push_str(if selector == 3 { "use ::std::borrow::Borrow;\n" } else { "use ::std::convert::AsRef;\nuse ::std::ops::Deref;\n" });
    }
    // the trait may come out of a `macro_rules!` expansion in which a method has two parameters with one spelling (one written
    // in the macro, one passed in): different identifiers, told apart by their spans only
    let hygiene: Option<(usize, usize, usize)> = methods
        .iter()
        .enumerate()
        .find_map(|(mi, m)| {
            let plain: Vec<usize> = m.params.iter().enumerate().filter(|(_, p)| p.pk == PK::Plain).map(|(i, _)| i).collect();
            (plain.len() >= 2).then(|| (mi, plain[0], plain[plain.len() - 1]))
        })
        .filter(|_| t.chance(1, 6));
    // or the trait (with its `&self` receivers) is written in a macro and the entrait attribute is handed in by the caller
    // as plain tokens: the receiver and the attribute come from different hygiene contexts
    let attr_from_call = hygiene.is_none() && t.chance(1, 8);
    // or the *type* of the exclusive receiver is handed in (`self: $rt` with `$rt:ty`): it arrives inside an invisible group
    let recv_fragment = mut_method && hygiene.is_none() && !attr_from_call && t.chance(1, 3);
    let mut trait_methods = methods.clone();
    if let Some((mi, _, j)) = hygiene {
        trait_methods[mi].params[j].name = "$p".to_string();
        src.push_str("macro_rules! __mk_tr { ($p:ident) => {\n");
    }
    if recv_fragment {
        src.push_str("macro_rules! __mk_tr { ($rt:ty) => {\n");
    }
    // or every `self` of the trait is handed in by the caller (`fn m(&$slf, ..)`, the `$self_:ident` idiom): the `&` and the
    // `self` of a receiver then come from different hygiene contexts
    let self_fragment = hygiene.is_none() && !attr_from_call && !recv_fragment && t.chance(1, 8);
    let trait_starts_at = src.len();
    if attr_from_call {
        src.push_str(&format!("macro_rules! __mk_tr {{ ($($a:tt)*) => {{\n$($a)*\n{at}pub trait Tr{tg}{sup_src}{tw} {{\n"));
    } else {
        src.push_str(&format!("/*GEN*/ #[::entrait::entrait({attr})]\n{at}pub trait Tr{tg}{sup_src}{tw} {{\n"));
    }
    for m in &trait_methods {
        src.push_str(&format!("    {};\n", m.sig(false).replace("u: U", u_decl)));
    }
    // (the recording provider may override it - then the override is what `Impl<T>` has to reach - and, with static
    // selectors, the method may be one for sized implementors only)
    let dflt_overridden = dflt.is_some() && t.flip();
    let dflt_sized = dflt.is_some() && !dynamic && t.chance(1, 3);
    let dflt_where = if dflt_sized { " where Self: Sized" } else { "" };
    let mut dflt_override_impl = String::new();
    if let Some(dasync) = dflt {
        let (q, y) = if dasync { ("async ", "rt::yield_once().await; ") } else { ("", "") };
        src.push_str(&format!("    {q}fn dflt(&self, x: i32, y: i32) -> String{dflt_where} {{ {y}let __r = format!(\"DFLT|{{}}|{{}},{{}}\", rt::addr(self), x, y); rt::trace(__r.clone()); __r }}\n"));
        if dflt_overridden {
            dflt_override_impl = format!("    {q}fn dflt(&self, x: i32, y: i32) -> String{dflt_where} {{ {y}let __r = format!(\"OVERRIDDEN|{{}}|{{}},{{}}\", rt::addr(self), x, y); rt::trace(__r.clone()); __r }}\n");
        }
    }
    // a provided method that takes `mut self` (and a `mut` argument) by value; the trait and what the macro generates next to it
    // are in a module that denies `unused_mut`, as a crate under `deny(warnings)` would
    let byval_mut = !dynamic && hygiene.is_none() && !attr_from_call && !recv_fragment && !self_fragment && t.chance(1, 5);
    if byval_mut {
        src.push_str("    fn consume(mut self, mut n: i32) -> i32 where Self: Sized { n += 1; let _s = &mut self; n }\n");
    }
    src.push_str(assoc_decl);
    src.push_str(borrow_decl);
    src.push_str(phantom_decl);
    src.push_str(selfless_decl);
    if recv_fragment {
        src.push_str(&mut_decl.replace("&mut self", "self: $rt"));
    } else {
        src.push_str(mut_decl);
    }
    src.push_str("}\n");
    // the trait may be deprecated: that is for those who use it, not for the impl that comes with it (the module denies `deprecated`)
    let deprecated_trait = hygiene.is_none() && !attr_from_call && !recv_fragment && !self_fragment && t.chance(1, 6);
    if byval_mut || deprecated_trait {
        let decl = src.split_off(trait_starts_at);
        src.push_str("mod __lint {\n");
        if byval_mut {
            src.push_str("#![deny(unused_mut)]\n");
        }
        if deprecated_trait {
            src.push_str("#![deny(deprecated)]\n");
        }
        src.push_str("use super::*;\n");
        if deprecated_trait {
            src.push_str("#[deprecated(note = \"use something else\")]\n");
        }
        src.push_str(&decl);
        src.push_str("}\npub use __lint::*;\n");
    }
    if recv_fragment {
        src.push_str("} }\n__mk_tr!(&mut Self);\n");
    }
    if self_fragment {
        let decl = src.split_off(trait_starts_at);
        // every `self` token of the declaration (receivers and default bodies alike), not `Self`
        let mut out = String::new();
        let bytes = decl.as_bytes();
        let mut i = 0;
        while i < bytes.len() {
            let is_word = |b: u8| b.is_ascii_alphanumeric() || b == b'_';
            if decl[i..].starts_with("self") && (i == 0 || !is_word(bytes[i - 1])) && (i + 4 >= bytes.len() || !is_word(bytes[i + 4])) {
                out.push_str("$slf");
                i += 4;
            } else {
                out.push(bytes[i] as char);
                i += 1;
            }
        }
        src.push_str("macro_rules! __mk_tr { ($slf:ident) => {\n");
        src.push_str(&out);
        src.push_str("} }\n__mk_tr!(self);\n");
    }
    if let Some((mi, i, _)) = hygiene {
        src.push_str(&format!("}} }}\n__mk_tr!({});\n", methods[mi].params[i].name));
    }
    if attr_from_call {
        src.push_str(&format!("}} }}\n/*GEN*/ __mk_tr!(#[::entrait::entrait({attr})]);\n/*TWIN*/ __mk_tr!();\n"));
    }
    // recording providers: Rec (Sync) and NsRec (!Sync)
    // a !Sync provider cannot implement a trait whose async methods return Send futures borrowing `&self`
    let ns_provider = !dynamic && (!any_async || no_send);
    let providers: Vec<(&str, &str)> = if ns_provider { vec![("Rec", "()"), ("NsRec", "::core::cell::Cell<u8>")] } else { vec![("Rec", "()")] };
    for (ty, field) in providers {
        src.push_str(&format!("pub struct {ty} {{ pub pad: u64, pub f: {field} }}\nimpl Sup for {ty} {{}}\nimpl Sup2 for {ty} {{}}\n{at}impl Tr{targ} for {ty} {{\n"));
        for m in &methods {
            src.push_str(&format!("    {} {}\n", m.sig(false).replace("u: U", u_impl), m.body()));
        }
        src.push_str(assoc_impl);
        src.push_str(borrow_impl);
        src.push_str(phantom_impl);
        src.push_str(selfless_impl);
        src.push_str(mut_impl);
        src.push_str(&dflt_override_impl);
        src.push_str("}\n");
    }
    // application types per selector
    let dyn_ty = format!("dyn Tr{targ}");
    match selector {
        0 | 1 => src.push_str(if ns_provider { "pub type NsApp = NsRec;\n" } else { "" }),
        _ => {}
    }
    match selector {
        0 | 1 => src.push_str("pub type App = Rec;\nimpl Sup2 for ::entrait::Impl<App> {}\nfn mk_app() -> App { Rec { pad: 1, f: () } }\nfn provider(app: &App) -> &Rec { app }\n"),
        2 => src.push_str(&format!(
            "pub struct App {{ pub pad: u64, pub rec: Rec }}\npub struct NsApp {{ pub rec: Rec, pub c: ::core::cell::Cell<u8> }}\n\
             impl AsRef<{dyn_ty}> for App {{ fn as_ref(&self) -> &({dyn_ty} + 'static) {{ &self.rec }} }}\n\
             impl AsRef<{dyn_ty}> for NsApp {{ fn as_ref(&self) -> &({dyn_ty} + 'static) {{ &self.rec }} }}\n\
             fn mk_app() -> App {{ App {{ pad: 5, rec: Rec {{ pad: 1, f: () }} }} }}\nfn provider(app: &App) -> &Rec {{ &app.rec }}\n"
        )),
        _ => src.push_str(&format!(
            "pub struct App {{ pub pad: u64, pub rec: Rec }}\npub struct NsApp {{ pub rec: Rec, pub c: ::core::cell::Cell<u8> }}\n\
             impl ::core::borrow::Borrow<{dyn_ty}> for App {{ fn borrow(&self) -> &({dyn_ty} + 'static) {{ &self.rec }} }}\n\
             impl ::core::borrow::Borrow<{dyn_ty}> for NsApp {{ fn borrow(&self) -> &({dyn_ty} + 'static) {{ &self.rec }} }}\n\
             fn mk_app() -> App {{ App {{ pad: 5, rec: Rec {{ pad: 1, f: () }} }} }}\nfn provider(app: &App) -> &Rec {{ &app.rec }}\n"
        )),
    }
    src.push_str("pub struct NoProvider;\n");
    // a provider that is Sync + 'static but not Send: nothing in the statement asks for Send
    let nsend_field = "::core::marker::PhantomData<::std::sync::MutexGuard<'static, ()>>";
    // don't-care: async + ref/Borrow without `?Send` (the code adds `T: Send` there), and a method that takes `self` by value (likewise)
    let probe_not_send = !(dynamic && any_async && !no_send_dyn) && !byval_mut;
    if probe_not_send {
        if dynamic {
            let (tr, f) = if selector == 2 { ("AsRef", "as_ref") } else { ("::core::borrow::Borrow", "borrow") };
            src.push_str(&format!(
                "pub struct NotSendApp {{ pub rec: Rec, pub g: {nsend_field} }}\nimpl {tr}<{dyn_ty}> for NotSendApp {{ fn {f}(&self) -> &({dyn_ty} + 'static) {{ &self.rec }} }}\n"
            ));
        } else {
            src.push_str(&format!("pub struct NotSendApp {{ pub g: {nsend_field} }}\nimpl Sup for NotSendApp {{}}\nimpl Sup2 for NotSendApp {{}}\nimpl Sup2 for ::entrait::Impl<NotSendApp> {{}}\n{at}impl Tr{targ} for NotSendApp {{\n"));
            for m in &methods {
                src.push_str(&format!("    {} {}\n", m.sig(false).replace("u: U", u_impl), m.body()));
            }
            src.push_str(assoc_impl);
            src.push_str(borrow_impl);
            src.push_str(phantom_impl);
            src.push_str(selfless_impl);
            src.push_str(mut_impl);
            src.push_str("}\n");
        }
    }
    // `'static` leg: an application that provides the trait but borrows for a caller-chosen 'a (compile probe, see static_leg)
    let static_probe = {
        let mut sp = src.clone();
        match selector {
            0 | 1 => {
                sp.push_str(&format!("pub struct BorrowedApp<'b> {{ pub x: &'b u8 }}\nimpl<'b> Sup for BorrowedApp<'b> {{}}\nimpl<'b> Sup2 for BorrowedApp<'b> {{}}\nimpl<'b> Sup2 for ::entrait::Impl<BorrowedApp<'b>> {{}}\n{at}impl<'b> Tr{targ} for BorrowedApp<'b> {{\n"));
                for m in &methods {
                    sp.push_str(&format!("    {} {}\n", m.sig(false).replace("u: U", u_impl), m.body()));
                }
                sp.push_str(assoc_impl);
                sp.push_str(borrow_impl);
                sp.push_str(phantom_impl);
                sp.push_str(selfless_impl);
                sp.push_str(mut_impl);
                sp.push_str("}\n");
            }
            _ => {
                let (tr, f) = if selector == 2 { ("AsRef", "as_ref") } else { ("::core::borrow::Borrow", "borrow") };
                sp.push_str(&format!(
                    "pub struct BorrowedApp<'b> {{ pub rec: Rec, pub x: &'b u8 }}\nimpl<'b> {tr}<{dyn_ty}> for BorrowedApp<'b> {{ fn {f}(&self) -> &({dyn_ty} + 'static) {{ &self.rec }} }}\n"
                ));
            }
        }
        let mk = if selector <= 1 { "BorrowedApp { x }" } else { "BorrowedApp { rec: Rec { pad: 1, f: () }, x }" };
        sp.push_str(&format!("fn needs<T: Tr{targ}>(_: &T) {{}}\n"));
        let neg = format!("{sp}pub fn probe<'a>(x: &'a u8) {{ let app = ::entrait::Impl::new({mk}); needs(&app); }}\npub fn run() -> Vec<String> {{ vec![] }}\n");
        let pos = format!("{sp}pub fn probe(x: &'static u8) {{ let app = ::entrait::Impl::new({mk}); needs(&app); }}\npub fn run() -> Vec<String> {{ vec![] }}\n");
        (neg, pos)
    };
    src.push_str(&format!(
        "struct Probe<T>(PhantomData<T>);\ntrait Fallback {{ fn has(&self) -> bool {{ false }} }}\nimpl<T> Fallback for Probe<T> {{}}\nimpl<T: Tr{targ}> Probe<T> {{ fn has(&self) -> bool {{ true }} }}\n"
    ));
    src.push_str("pub fn run() -> Vec<String> {\n    let mut fails: Vec<String> = vec![];\n    let app = ::entrait::Impl::new(mk_app());\n");
    for (i, m) in methods.iter().enumerate() {
        let args = m.call_args().replace("@U@", if lifetime_trait || generic_flavour == 2 { "\"lit\"" } else { "777i64" });
        let wrap = |e: String| if m.is_async { format!("rt::block_on({e})") } else { e };
        let vec_decls: String = m.params.iter().enumerate().filter(|(_, p)| p.vt == VT::MutVec).map(|(k, _)| format!("let mut vec_{k}: Vec<i32> = vec![{}]; ", k + 1)).collect();
        let vec_names: Vec<String> = m.params.iter().enumerate().filter(|(_, p)| p.vt == VT::MutVec).map(|(k, _)| format!("vec_{k}")).collect();
        src.push_str("    {\n        let _ = rt::take();\n");
        src.push_str(&format!("        {vec_decls}\n        let direct = {};\n        let t_direct = rt::take();\n", wrap(format!("Tr::{}(provider(&app), {args})", m.name).replace(", )", ")"))));
        for v in &vec_names {
            src.push_str(&format!("        let d_{v} = {v}.clone();\n"));
        }
        src.push_str(&format!("        {vec_decls}\n/*GEN*/ let via = {};\n        let t_via = rt::take();\n", wrap(format!("Tr::{}(&app, {args})", m.name).replace(", )", ")"))));
        src.push_str(&format!("        if t_direct.len() != 1 {{ fails.push(format!(\"HARNESS: provider call traced {{}} entries\", t_direct.len())); }}\n"));
        src.push_str(&format!("/*GEN*/ rt::expect_eq(&mut fails, \"method#{i} {}: result through Impl<T> vs the provider\", &via, &direct);\n", m.name));
        src.push_str(&format!("/*GEN*/ rt::expect_eq(&mut fails, \"method#{i} {}: call trace through Impl<T> vs the provider\", &t_via, &t_direct);\n", m.name));
        for v in &vec_names {
            src.push_str(&format!("/*GEN*/ rt::expect_eq(&mut fails, \"method#{i} {}: &mut argument {v}\", &{v}, &d_{v});\n", m.name));
        }
        src.push_str("    }\n");
    }
    if let Some(dasync) = dflt {
        let wrap = |e: String| if dasync { format!("rt::block_on({e})") } else { e };
        src.push_str("    {\n        let _ = rt::take();\n");
        src.push_str(&format!("        let direct = {};\n        let t_direct = rt::take();\n", wrap("Tr::dflt(provider(&app), 41, 42)".to_string())));
        src.push_str(&format!("/*GEN*/ let via = {};\n        let t_via = rt::take();\n", wrap("Tr::dflt(&app, 41, 42)".to_string())));
        src.push_str("/*GEN*/ rt::expect_eq(&mut fails, \"defaulted method: result through Impl<T> vs the provider (which inherits the default body)\", &via, &direct);\n");
        src.push_str("/*GEN*/ rt::expect_eq(&mut fails, \"defaulted method: call trace through Impl<T> vs the provider\", &t_via, &t_direct);\n");
        src.push_str("        if t_direct.len() != 1 { fails.push(format!(\"HARNESS: defaulted method traced {} entries on the provider\", t_direct.len())); }\n");
        src.push_str("    }\n");
    }
    if let Some(k) = borrow_kind {
        let arg = if k == 2 { "\"arg\"" } else { "77" };
        src.push_str("    {\n        let _ = rt::take();\n");
        src.push_str(&format!("        let direct = Tr::tagline(provider(&app), {arg}).to_string();\n        let t_direct = rt::take();\n"));
        src.push_str(&format!("/*GEN*/ let via = Tr::tagline(&app, {arg}).to_string();\n        let t_via = rt::take();\n"));
        src.push_str("/*GEN*/ rt::expect_eq(&mut fails, \"borrowed-return method: result through Impl<T> vs the provider\", &via, &direct);\n");
        src.push_str("/*GEN*/ rt::expect_eq(&mut fails, \"borrowed-return method: call trace\", &t_via, &t_direct);\n");
        src.push_str("    }\n");
    }
    if phantom {
        let tf = if phantom_proj { "u16" } else { "(u8, bool), 5" };
        src.push_str(&format!("    {{\n        let _ = rt::take();\n        let direct = Tr::sized::<{tf}>(provider(&app), 9);\n        let t_direct = rt::take();\n"));
        src.push_str(&format!("/*GEN*/ let via = Tr::sized::<{tf}>(&app, 9);\n        let t_via = rt::take();\n"));
        src.push_str("/*GEN*/ rt::expect_eq(&mut fails, \"method with type/const parameters named by the caller only: result through Impl<T> vs the provider\", &via, &direct);\n");
        src.push_str("/*GEN*/ rt::expect_eq(&mut fails, \"method with type/const parameters named by the caller only: call trace\", &t_via, &t_direct);\n");
        src.push_str("        if t_direct.len() != 1 { fails.push(format!(\"HARNESS: sized traced {} entries on the provider\", t_direct.len())); }\n");
        src.push_str("    }\n");
    }
    if mut_method {
        src.push_str(&"    {\n        let mut mapp = ::entrait::Impl::new(mk_app());\n        let _ = rt::take();\n        let direct = @B@Tr::bump(&mut *mapp, 9)@E@;\n        let t_direct = rt::take();\n".replace("@B@", if mut_async { "rt::block_on(" } else { "" }).replace("@E@", if mut_async { ")" } else { "" }));
        src.push_str(&"/*GEN*/ let via = @B@Tr::bump(&mut mapp, 9)@E@;\n        let t_via = rt::take();\n".replace("@B@", if mut_async { "rt::block_on(" } else { "" }).replace("@E@", if mut_async { ")" } else { "" }));
        src.push_str("/*GEN*/ rt::expect_eq(&mut fails, \"`&mut self` method: result through Impl<T> vs the provider\", &via, &direct);\n");
        src.push_str("/*GEN*/ rt::expect_eq(&mut fails, \"`&mut self` method: call trace (same provider)\", &t_via, &t_direct);\n");
        src.push_str("        if t_direct.len() != 1 { fails.push(format!(\"HARNESS: bump traced {} entries on the provider\", t_direct.len())); }\n");
        src.push_str("    }\n");
    }
    if byval_mut {
        src.push_str(&format!("/*GEN*/ {{ let got = <::entrait::Impl<App> as Tr{targ}>::consume(::entrait::Impl::new(mk_app()), 3); rt::expect_eq(&mut fails, \"provided `mut self` method through Impl<T>\", &got, &4); }}\n"));
    }
    if selfless {
        src.push_str(&format!("    {{\n        let _ = rt::take();\n        let direct = <Rec as Tr{targ}>::make(5, 6);\n        let t_direct = rt::take();\n"));
        src.push_str(&format!("/*GEN*/ let via = <::entrait::Impl<App> as Tr{targ}>::make(5, 6);\n        let t_via = rt::take();\n"));
        src.push_str("/*GEN*/ rt::expect_eq(&mut fails, \"associated fn without a receiver: result through Impl<T> vs the provider\", &via, &direct);\n");
        src.push_str("/*GEN*/ rt::expect_eq(&mut fails, \"associated fn without a receiver: call trace\", &t_via, &t_direct);\n");
        src.push_str("        if t_direct.len() != 1 { fails.push(format!(\"HARNESS: make traced {} entries on the provider\", t_direct.len())); }\n");
        src.push_str("    }\n");
    }
    if assoc {
        src.push_str("    {\n        let _ = rt::take();\n        let direct = format!(\"{:?}\", Tr::tag(provider(&app), 31));\n        let t_direct = rt::take();\n");
        src.push_str("/*GEN*/ let via = format!(\"{:?}\", Tr::tag(&app, 31));\n        let t_via = rt::take();\n");
        src.push_str("/*GEN*/ rt::expect_eq(&mut fails, \"method returning the associated type: result through Impl<T> vs the provider\", &via, &direct);\n");
        src.push_str("/*GEN*/ rt::expect_eq(&mut fails, \"method returning the associated type: call trace\", &t_via, &t_direct);\n");
        src.push_str(&format!("/*GEN*/ {{ let d: <::entrait::Impl<App> as Tr{targ}>::Tag = Default::default(); rt::expect_eq(&mut fails, \"associated type of Impl<App> is the provider's\", &format!(\"{{:?}}\", d), &\"(0, 0)\".to_string()); }}\n"));
        src.push_str("    }\n");
    }
    let mut probes = vec![("::entrait::Impl<App>", true), ("::entrait::Impl<NoProvider>", false)];
    if dynamic || ns_provider {
        probes.push(("::entrait::Impl<NsApp>", false));
    }
    if probe_not_send {
        probes.push(("::entrait::Impl<NotSendApp>", !send_super));
    }
    for (ty, want) in probes {
        src.push_str(&format!("/*GEN*/ {{ let got = Probe::<{ty}>(PhantomData).has(); if got != {want} {{ fails.push(format!(\"`{ty}: Tr` is {{}} but should be {want}\", got)); }} }}\n"));
    }
    src.push_str("    fails\n}\n");
    let same_sig = methods.windows(2).any(|w| w[0].sig(false).replace(&w[0].name, "") == w[1].sig(false).replace(&w[1].name, ""));
    let same_typed = methods.iter().any(|m| m.params.windows(2).any(|w| w[0].vt == w[1].vt));
    let generic = generic_trait || methods.iter().any(|m| m.has_gen);
    let mut classes = vec![["selector:default", "selector:Self", "selector:ref", "selector:Borrow"][selector]];
    if same_sig {
        classes.push("same_signature_methods");
    }
    if same_typed {
        classes.push("adjacent_same_typed_args");
    }
    if generic {
        classes.push("generic");
    }
    if lifetime_trait {
        classes.push("trait_lifetime_parameter");
    }
    if let Some(dasync) = dflt {
        classes.push(if dasync { "defaulted_method_async" } else { "defaulted_method" });
    }
    if assoc {
        classes.push("associated_type");
    }
    if let Some(k) = borrow_kind {
        classes.push(["borrowed_return:receiver_elided", "borrowed_return:receiver_named", "borrowed_return:argument_named"][k]);
    }
    if hygiene.is_some() {
        classes.push("trait_from_macro_rules_with_same_spelled_parameters");
    }
    if attr_from_call {
        classes.push("trait_in_macro_rules_attribute_from_the_invocation");
    }
    if phantom_proj {
        classes.push("method_type_parameter_mentioned_only_through_an_associated_type");
    } else if phantom {
        classes.push("method_generics_named_by_caller_only");
    }
    if selfless {
        classes.push("associated_fn_without_receiver");
    }
    if selfless_impl_named {
        classes.push("associated_fn_whose_first_parameter_is_named___impl");
    }
    if send_super {
        classes.push("send_supertrait_with_a_dyn_selector");
    }
    if sup_for_some {
        classes.push("supertrait_that_only_some_impl_t_have");
    }
    if sup_mentions_self {
        classes.push("supertrait_that_mentions_self_next_to_others");
    }
    if byval_mut {
        classes.push("defaulted_method_with_mut_self_by_value_under_deny_unused_mut");
    }
    if deprecated_trait {
        classes.push("deprecated_trait_under_deny_deprecated");
    }
    if no_send_dyn {
        classes.push("maybe_send_with_a_dyn_selector");
    }
    if recv_fragment {
        classes.push("receiver_type_from_a_macro_rules_ty_fragment");
    }
    if self_fragment {
        classes.push("self_tokens_from_a_macro_rules_ident_fragment");
    }
    if dflt_overridden {
        classes.push("defaulted_method_overridden_by_the_provider");
    }
    if dflt_sized {
        classes.push("defaulted_method_where_self_sized");
    }
    if mut_method {
        classes.push(if mut_async { "mut_self_method_async_under_maybe_send" } else { "mut_self_method" });
    }
    if sup_same_name {
        classes.push("supertrait_method_of_the_same_name");
    }
    if generic_flavour > 0 {
        classes.push(["", "trait_type_parameter_with_default", "trait_type_parameter_maybe_sized"][generic_flavour]);
    }
    if trait_where || methods.iter().any(|m| m.has_gen && m.where_form) {
        classes.push("where_clause");
    }
    if any_async {
        classes.push(if use_async_trait { "async_with_async_trait" } else { "async_static" });
    }
    let mut extras: Vec<&str> = vec![];
    if phantom_proj {
        extras.push("fn sized<W: Proj>(&self, x: W::Out) -> String");
    } else if phantom {
        extras.push("fn sized<W: Debug + Default, const K: usize>(&self, x: i32) -> String");
    }
    if selfless {
        extras.push(if selfless_impl_named { "fn make(__impl: i32, y: i32) -> String" } else { "fn make(x: i32, y: i32) -> String" });
    }
    if mut_method {
        extras.push(if mut_async { "async fn bump(&mut self, x: i32) -> String" } else { "fn bump(&mut self, x: i32) -> String" });
    }
    if sup_same_name {
        extras.push("[Sup has a provided method named like the first method]");
    }
    if attr_from_call {
        extras.push("[trait written in a macro_rules! body, attribute passed in as tokens]");
    }
    let summary = format!(
        "#[entrait({attr})] {}trait Tr{tg}{sup_src} {{ {} }}",
        at.trim(),
        methods.iter().map(|m| m.sig(false)).chain(extras.iter().map(|e| e.to_string())).collect::<Vec<_>>().join("; ")
    );
    let twin: String = src.lines().filter(|l| !l.starts_with("/*GEN*/")).collect::<Vec<_>>().join("\n");
    let strip_twin = |s: &str| s.lines().filter(|l| !l.starts_with("/*TWIN*/")).collect::<Vec<_>>().join("\n");
    let src = strip_twin(&src);
    let static_probe = (strip_twin(&static_probe.0), strip_twin(&static_probe.1));
    Case { src, twin, summary, nontrivial: same_sig || same_typed || generic || dynamic, classes, static_probe }
}

fn run_single(name: &str, src: &str) -> Result<(String, String), String> {
    let mut b = Batch::new(name, Opts { feature_unimock: false, members: 1, ..Default::default() });
    b.add("c00000", src.to_string());
    let out = b.build_and_run();
    b.cleanup();
    if let Some(d) = out.compile_failed.values().next() {
        return Err(d.first().map(|x| x.rendered.clone()).unwrap_or_default());
    }
    out.ran.get("c00000").cloned().ok_or_else(|| "no result".to_string())
}

pub const TAPE_LEN: usize = 128;

pub fn run(ctx: &mut Ctx) {
    ctx.rule = "cases = hand-written-style traits with 1..5 `&self` methods (repeated signatures, adjacent equal types, generic trait parameter, generic methods for static selectors, \
                supertraits, where clauses on the trait and on methods, wildcard parameters, &mut arguments, a defaulted method, an associated type, a borrowed-return method, sync/async with and without async_trait) x selector {default, Self, ref, Borrow} x options; a recording provider logs \
                (method tag, provider address, arguments); each method is called on the provider and through Impl<App> with distinct argument values and results/traces are compared; \
                probes: Impl<App> implements the trait, Impl<NoProvider> and Impl<!Sync app> do not, Impl<Sync + !Send app> does, and (compile probe on the first 160 / 800 cases) Impl<app borrowing for 'a> does not; non-trivial = >=2 same-signature methods, >=2 same-typed args, generic, or ref/Borrow; \
                distinct = distinct program text"
        .into();
    ctx.assumptions.push("don't-care: whether an async + `ref` trait additionally needs `T: Send` (not probed)".into());
    if !probe_known(ctx) {
        return;
    }
    let n = ctx.n(1200, 10000) as usize;
    let tapes = crate::drive::gen_tapes(ctx.seed, 600, n, TAPE_LEN);
    let cases: Vec<Case> = tapes.iter().map(|tp| gen_case(&mut Tape::new(tp))).collect();
    let mut batch = Batch::new("c06", Opts { feature_unimock: false, members: 16, ..Default::default() });
    for (i, c) in cases.iter().enumerate() {
        batch.add(&format!("c{i:05}"), c.src.clone());
    }
    let out = batch.build_and_run();
    batch.cleanup();
    super::common::crosscheck_records(ctx, &out.records);
    for (id, (status, msg)) in &out.ran {
        let i: usize = id[1..].parse().unwrap_or(0);
        let case = &cases[i];
        if msg.contains("__REMOVED__") {
            ctx.class("dropped_compile_error");
            continue;
        }
        ctx.count_eval();
        for c in &case.classes {
            ctx.class(c);
        }
        if status == "ok" {
            if case.nontrivial {
                ctx.nontrivial(&case.src);
                ctx.sample(|| json!(case.summary));
            }
            continue;
        }
        if msg.contains("HARNESS") {
            crate::ev::inconclusive(&format!("client harness fault: {msg}\n{}", case.src));
        }
        ctx.violation(
            &format!("Impl<T> does not forward to the provider as stated ({status}): {msg} -- in {}", case.summary),
            &json!({"engine": "E2", "src": case.src, "summary": case.summary}),
        );
        return;
    }
    if !static_leg(ctx, &cases) {
        return;
    }
    // programs that do not compile are judged only after the runnable ones (a broken tree often breaks both)
    let failed: Vec<(String, String, String, String)> = out
        .compile_failed
        .iter()
        .map(|(id, d)| {
            let i: usize = id[1..].parse().unwrap_or(0);
            (cases[i].summary.clone(), cases[i].src.clone(), cases[i].twin.clone(), d.first().map(|x| format!("{} {}", x.code, x.message)).unwrap_or_default())
        })
        .collect();
    let (violations, faults) = super::common::judge_compile_failures(ctx, "c06", false, &failed, "Impl<T> is not implemented for a providing T");
    ctx.extra.insert("generator_invalid".into(), json!(faults));
    if violations == 0 && faults * 50 > cases.len() {
        crate::ev::inconclusive(&format!("{faults} of {} C06 programs have a twin that does not compile (generator fault); first: {:?}", cases.len(), failed.first().map(|f| (&f.0, &f.3))));
    }
}

/// Open known findings (known_findings.txt) are probed with their stored reproducers: still failing in the stored way =>
/// KNOWN-FINDING; failing in another way => violation. The generator does not produce these shapes.
fn probe_known(ctx: &mut Ctx) -> bool {
    for f in crate::ev::open_findings("C06") {
        let variants: Vec<(&str, &str)> = match f.key.as_str() {
            "deprecated-method-attribute-mirrored" => vec![
                ("", "#[deprecated]"),
                ("delegate_by = ref", "#[deprecated(note = \"use new\")]"),
                ("", "#[cfg_attr(all(), deprecated)]"),
            ],
            other => crate::ev::inconclusive(&format!("known_findings.txt lists an open C06 finding with an unknown key: {other}")),
        };
        let mut still = 0;
        for (attr, dep) in &variants {
            let body = format!("pub trait Tr: 'static {{\n    {dep}\n    fn old(&self, x: u8) -> u8;\n    fn new(&self, x: u8) -> u8;\n}}\npub fn run() -> Vec<String> {{ vec![] }}\n");
            let real = format!("#![allow(warnings)]\n#[::entrait::entrait({attr})]\n{body}");
            let twin = format!("#![allow(warnings)]\n{body}");
            let mut b = Batch::new("c06-known", Opts { feature_unimock: false, members: 2, check_only: true, ..Default::default() });
            b.add("c00000", real.clone());
            b.add("t00000", twin);
            let out = b.build_and_run();
            b.cleanup();
            ctx.count_eval();
            if out.compile_failed.contains_key("t00000") {
                crate::ev::inconclusive("C06 known-finding probe: the twin does not compile");
            }
            if let Some(d) = out.compile_failed.get("c00000") {
                if d.iter().any(|x| x.message.contains("`#[deprecated]` attribute cannot be used on trait methods in impl blocks") || x.code.contains("useless_deprecated")) {
                    still += 1;
                } else {
                    ctx.violation(
                        &format!("known finding `{}` now fails differently: {}", f.key, d.first().map(|x| format!("{} {}", x.code, x.message)).unwrap_or_default()),
                        &json!({"engine": "E2", "src": real, "summary": format!("#[entrait({attr})] trait Tr {{ {dep} fn old(&self, x: u8) -> u8; .. }}")}),
                    );
                    return false;
                }
            }
        }
        if still > 0 {
            ctx.known(&format!("key={} {} ({still}/{} probes still fail)", f.key, f.what, variants.len()));
        }
    }
    true
}

/// `'static`: `Impl<BorrowedApp<'a>>: Tr` must be rejected for a caller-chosen 'a although `BorrowedApp<'a>` provides the trait
/// in the selected way; the twin with `'static` must compile, otherwise nothing is concluded from the probe
fn static_leg(ctx: &mut Ctx, cases: &[Case]) -> bool {
    let k = if ctx.quick() { 160 } else { 800 }.min(cases.len());
    let mut batch = Batch::new("c06-static", Opts { feature_unimock: false, members: 16, check_only: true, ..Default::default() });
    for (i, c) in cases.iter().take(k).enumerate() {
        batch.add(&format!("n{i:05}"), c.static_probe.0.clone());
        batch.add(&format!("p{i:05}"), c.static_probe.1.clone());
    }
    let out = batch.build_and_run();
    batch.cleanup();
    for (i, c) in cases.iter().take(k).enumerate() {
        let (nid, pid) = (format!("n{i:05}"), format!("p{i:05}"));
        if out.compile_failed.contains_key(&pid) {
            ctx.class("static_probe:twin_does_not_compile");
            continue;
        }
        ctx.count_eval();
        match out.compile_failed.get(&nid) {
            Some(d) => {
                let lifetime = d.iter().any(|x| ["E0521", "E0597", "E0759", "E0477", "E0310", "E0311", "E0716"].contains(&x.code.as_str()) || x.message.contains("lifetime") || x.message.contains("borrowed data escapes") || x.message.contains("does not live long enough"));
                if !lifetime {
                    crate::ev::inconclusive(&format!("'static probe failed with an unrelated error: {} -- {}", d.first().map(|x| x.rendered.clone()).unwrap_or_default(), c.summary));
                }
                ctx.class("static_probe:non_static_app_rejected");
            }
            None => {
                let mut b = Batch::new("c06-static-single", Opts { feature_unimock: false, members: 1, check_only: true, ..Default::default() });
                b.add("c00000", c.static_probe.0.clone());
                let o = b.build_and_run();
                b.cleanup();
                if o.compile_failed.is_empty() {
                    ctx.violation(
                        &format!("Impl<T> implements the trait for a T that is not `'static` (`Impl<BorrowedApp<'a>>: Tr` accepted for a caller-chosen 'a) -- in {}", c.summary),
                        &json!({"engine": "E2", "kind": "static", "src": c.static_probe.0, "summary": c.summary}),
                    );
                    return false;
                }
                ctx.class("static_probe:non_static_app_rejected");
            }
        }
    }
    true
}

pub fn replay(ctx: &mut Ctx, v: &Value) {
    ctx.count_eval();
    if super::s(v, "kind") == "static" {
        let mut b = Batch::new("c06-static-replay", Opts { feature_unimock: false, members: 1, check_only: true, ..Default::default() });
        b.add("c00000", super::s(v, "src"));
        let o = b.build_and_run();
        b.cleanup();
        if o.compile_failed.is_empty() {
            ctx.violation("Impl<T> implements the trait for a T that is not `'static`", v);
        }
        return;
    }
    match run_single("c06-replay", &super::s(v, "src")) {
        Err(e) => {
            // (stored programs compile on the tree they were stored for: this check judges compile failures)
            ctx.violation(&format!("program does not compile: {}", e.lines().find(|l| l.starts_with("error")).or(e.lines().next()).unwrap_or("")), v);
        }
        Ok((st, msg)) => {
            if st != "ok" {
                ctx.violation(&format!("Impl<T> does not forward to the provider as stated: {msg}"), v);
            }
        }
    }
}
