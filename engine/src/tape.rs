//! Choice tape: every random decision of every generator is read from a `&[u32]` that proptest
//! (or libFuzzer, bytes widened) produced. An exhausted tape answers 0, and in every `choose`
//! the *simplest* alternative is listed first, so shrinking a tape value towards 0 simplifies
//! the decoded program. Indices are mapped monotonically (`v * n >> 32`), never with `%`.

pub struct Tape<'a> {
    data: &'a [u32],
    pos: usize,
}

impl<'a> Tape<'a> {
    pub fn new(data: &'a [u32]) -> Self {
        Self { data, pos: 0 }
    }

    pub fn raw(&mut self) -> u32 {
        let v = self.data.get(self.pos).copied().unwrap_or(0);
        self.pos += 1;
        v
    }

    pub fn used(&self) -> usize {
        self.pos
    }

    /// uniform in 0..n (n >= 1), monotone in the tape value
    pub fn choose(&mut self, n: usize) -> usize {
        debug_assert!(n >= 1);
        ((self.raw() as u64 * n as u64) >> 32) as usize
    }

    /// inclusive range, monotone
    pub fn range(&mut self, lo: usize, hi: usize) -> usize {
        lo + self.choose(hi - lo + 1)
    }

    /// true with probability num/den; tape value 0 => false
    pub fn chance(&mut self, num: u32, den: u32) -> bool {
        let v = self.raw() as u64;
        // false region first: [0, (den-num)/den)
        v * den as u64 >= ((den - num) as u64) << 32
    }

    pub fn flip(&mut self) -> bool {
        self.chance(1, 2)
    }

    /// weighted choice; first alternative is the shrink target
    pub fn weighted(&mut self, weights: &[u32]) -> usize {
        let total: u64 = weights.iter().map(|w| *w as u64).sum();
        let x = (self.raw() as u64 * total) >> 32;
        let mut acc = 0u64;
        for (i, w) in weights.iter().enumerate() {
            acc += *w as u64;
            if x < acc {
                return i;
            }
        }
        weights.len() - 1
    }

    pub fn pick<'b, T>(&mut self, items: &'b [T]) -> &'b T {
        &items[self.choose(items.len())]
    }

    /// a permutation of 0..n (identity when the tape is all zero)
    pub fn permutation(&mut self, n: usize) -> Vec<usize> {
        let mut v: Vec<usize> = (0..n).collect();
        for i in 0..n.saturating_sub(1) {
            let j = i + self.choose(n - i);
            v.swap(i, j);
        }
        v
    }
}

/// widen fuzzer bytes to a tape (2 bytes per choice, high bits)
pub fn bytes_to_tape(bytes: &[u8]) -> Vec<u32> {
    bytes
        .chunks(2)
        .map(|c| {
            let hi = c[0] as u32;
            let lo = *c.get(1).unwrap_or(&0) as u32;
            (hi << 24) | (lo << 16)
        })
        .collect()
}
