//! C17 — options mean what the table says; macro variants are option shorthands.
//!
//! Metamorphic oracle: two invocations of the same item that the statement declares equivalent must expand to
//! identical token trees (or both be rejected). Plus the acceptance matrix (option × target) from the options table.

use crate::drive::{run_tapes_par, Fail};
use crate::e1::{self, Outcome};
use crate::ev::Ctx;
use crate::gen::{self, FnGenCfg, TraitGenCfg};
use crate::tape::Tape;
use serde_json::{json, Value};

#[derive(Clone, Debug, PartialEq)]
enum Form {
    Bare,
    True,
    False,
}

#[derive(Clone, Debug)]
struct Opt {
    name: &'static str,
    /// bool options: spelling; others: fixed text
    form: Form,
    text: Option<&'static str>,
}

impl Opt {
    fn render(&self) -> String {
        if let Some(t) = self.text {
            return t.to_string();
        }
        match self.form {
            Form::Bare => self.name.to_string(),
            Form::True => format!("{} = true", self.name),
            Form::False => format!("{} = false", self.name),
        }
    }
    fn is_true(&self) -> bool {
        self.text.is_none() && self.form != Form::False
    }
}

fn render_attr(head: &[String], opts: &[Opt]) -> String {
    let mut parts: Vec<String> = head.to_vec();
    parts.extend(opts.iter().map(|o| o.render()));
    parts.join(", ")
}

#[derive(Clone, Copy, PartialEq, Eq, Debug)]
pub enum Target {
    Fn,
    Mod,
    Trait,
    Impl,
}

fn gen_item(t: &mut Tape, target: Target) -> String {
    gen_item_with(t, target, true)
}

/// (`assoc_types`: a trait with associated types is accepted with delegation to `Self` only - the acceptance matrix uses traits
/// without them, the relations use both)
fn gen_item_with(t: &mut Tape, target: Target, assoc_types: bool) -> String {
    let cfg = FnGenCfg { allow_concrete: false, allow_no_deps: false, allow_leading_unsafe: true, rich_syntax: true, soup_bodies: false };
    match target {
        Target::Fn => {
            let cfg = FnGenCfg { allow_concrete: true, ..cfg };
            let vis = gen::gen_vis(t);
            gen::gen_fn(t, "foo", vis, &cfg).0.render()
        }
        Target::Mod => {
            let n = t.range(1, 4);
            let items: Vec<String> = (0..n).map(|i| gen::gen_mod_item(t, i, &cfg).src).collect();
            format!("{} mod m {{ {} }}", gen::gen_vis(t), items.join("\n"))
        }
        Target::Trait => {
            let cfg = TraitGenCfg {
                ref_self_only: true,
                patterns: true,
                default_bodies: false,
                assoc_types,
                other_items: false,
                unsafety: false,
                trait_attrs: true,
                method_attrs: true,
                generics: true,
                async_methods: true,
            };
            let mut tr = gen::gen_trait(t, "Tr", &cfg);
            // some methods take `&mut self` (what the generated impl asks of `T` then depends on the delegation)
            for it in tr.items.iter_mut() {
                if let gen::TraitItemSrc::Method(m) = it {
                    if m.receiver == "&self" && t.chance(1, 5) {
                        m.receiver = "&mut self".to_string();
                    }
                }
            }
            tr.render()
        }
        Target::Impl => {
            let n = t.range(0, 3);
            let items: Vec<String> = (0..n).map(|i| gen::gen_fn(t, &format!("m{i}"), String::new(), &cfg).0.render()).collect();
            format!("impl TraitImpl for MyType {{ {} }}", items.join("\n"))
        }
    }
}

fn gen_bool(t: &mut Tape, name: &'static str) -> Opt {
    let form = match t.weighted(&[3, 2, 2]) {
        0 => Form::Bare,
        1 => Form::True,
        _ => Form::False,
    };
    Opt { name, form, text: None }
}

/// a duplicate-free option list that is valid for the target
fn gen_opts(t: &mut Tape, target: Target) -> (Vec<String>, Vec<Opt>) {
    let mut head = vec![];
    let mut opts = vec![];
    match target {
        Target::Fn | Target::Mod => {
            head.push(format!("{} Foo", gen::gen_vis(t)).trim().to_string());
            if target == Target::Fn && t.chance(1, 4) {
                opts.push(gen_bool(t, "no_deps"));
            }
            if t.chance(1, 3) {
                opts.push(gen_bool(t, "export"));
            }
            if t.chance(1, 3) {
                opts.push(Opt { name: "?Send", form: Form::Bare, text: None });
            }
            if t.chance(1, 2) {
                opts.push(Opt { name: "mock_api", form: Form::Bare, text: Some("mock_api = FooMock") });
            }
            if t.chance(1, 2) {
                opts.push(gen_bool(t, "unimock"));
            }
            if t.chance(1, 3) {
                opts.push(gen_bool(t, "mockall"));
            }
        }
        Target::Trait => {
            match t.weighted(&[4, 2, 2, 1, 1]) {
                0 => {}
                1 => opts.push(Opt { name: "delegate_by", form: Form::Bare, text: Some("delegate_by = ref") }),
                2 => {
                    head.push("TraitImpl".to_string());
                    opts.push(Opt { name: "delegate_by", form: Form::Bare, text: Some("delegate_by = DelegateTr") });
                }
                3 => {
                    head.push("pub TraitImpl".to_string());
                    opts.push(Opt { name: "delegate_by", form: Form::Bare, text: Some("delegate_by = ref") });
                }
                _ => opts.push(Opt { name: "delegate_by", form: Form::Bare, text: Some("delegate_by = Self") }),
            }
            if t.chance(1, 3) {
                opts.push(Opt { name: "?Send", form: Form::Bare, text: None });
            }
            if t.chance(1, 2) {
                opts.push(Opt { name: "mock_api", form: Form::Bare, text: Some("mock_api = TrMock") });
            }
            if t.chance(1, 2) {
                opts.push(gen_bool(t, "unimock"));
            }
            if t.chance(1, 3) {
                opts.push(gen_bool(t, "mockall"));
            }
        }
        Target::Impl => {}
    }
    let perm = t.permutation(opts.len());
    let opts = perm.into_iter().map(|i| opts[i].clone()).collect();
    (head, opts)
}

pub struct Pair {
    pub relation: &'static str,
    pub item: String,
    pub a: (String, String),
    pub b: (String, String),
}

impl Pair {
    fn json(&self) -> Value {
        json!({"engine": "E1", "kind": "pair", "relation": self.relation, "item": self.item,
               "macro_a": self.a.0, "attr_a": self.a.1, "macro_b": self.b.0, "attr_b": self.b.1})
    }
}

fn gen_pair(t: &mut Tape) -> Option<Pair> {
    let target = [Target::Fn, Target::Mod, Target::Trait][t.weighted(&[4, 3, 3])];
    let item = gen_item(t, target);
    let (head, opts) = gen_opts(t, target);
    let base_macro = e1::MACROS[t.weighted(&[6, 1, 1, 1])].to_string();
    let base = render_attr(&head, &opts);
    let has = |name: &str| opts.iter().any(|o| o.name == name);
    match t.weighted(&[3, 2, 3, 3, 2]) {
        4 => {
            // R5: `delegate_by = Self` / a bare `delegate_by` == omitted (the documented default)
            if target != Target::Trait || has("delegate_by") || !head.is_empty() {
                return None;
            }
            let mut o2 = opts.clone();
            let pos = t.choose(o2.len() + 1);
            o2.insert(pos, Opt { name: "delegate_by", form: Form::Bare, text: Some(if t.flip() { "delegate_by = Self" } else { "delegate_by" }) });
            Some(Pair { relation: "delegate_by=Self==omitted", item, a: (base_macro.clone(), base), b: (base_macro, render_attr(&head, &o2)) })
        }
        0 => {
            // R1: bare == `= true`
            let idx: Vec<usize> = opts.iter().enumerate().filter(|(_, o)| o.is_true()).map(|(i, _)| i).collect();
            if idx.is_empty() {
                return None;
            }
            let i = idx[t.choose(idx.len())];
            let mut o2 = opts.clone();
            o2[i].form = if o2[i].form == Form::Bare { Form::True } else { Form::Bare };
            Some(Pair { relation: "bare==true", item, a: (base_macro.clone(), base), b: (base_macro, render_attr(&head, &o2)) })
        }
        1 => {
            // R2: `no_deps = false` / `export = false` == omitted (export only where no variant default applies)
            let mut cands = vec![];
            if !has("no_deps") && target != Target::Trait {
                cands.push("no_deps");
            }
            if !has("export") && target != Target::Trait && !base_macro.contains("export") {
                cands.push("export");
            }
            if cands.is_empty() {
                return None;
            }
            let name = cands[t.choose(cands.len())];
            let mut o2 = opts.clone();
            let pos = t.choose(o2.len() + 1);
            o2.insert(pos, Opt { name, form: Form::False, text: None });
            Some(Pair { relation: "false==omitted", item, a: (base_macro.clone(), base), b: (base_macro, render_attr(&head, &o2)) })
        }
        2 => {
            // R3: order independence
            if opts.len() < 2 {
                return None;
            }
            let perm = t.permutation(opts.len());
            if perm.iter().enumerate().all(|(i, p)| i == *p) {
                return None;
            }
            let o2: Vec<Opt> = perm.into_iter().map(|i| opts[i].clone()).collect();
            Some(Pair { relation: "order", item, a: (base_macro.clone(), base), b: (base_macro, render_attr(&head, &o2)) })
        }
        _ => {
            // R4: variant shorthands (explicit values win)
            let variant = ["entrait_export", "entrait_unimock", "entrait_export_unimock"][t.choose(3)];
            let mut o2 = opts.clone();
            if variant.contains("export") {
                if target == Target::Trait {
                    return None; // `export` is not an option of trait targets: nothing to compare with
                }
                if !has("export") {
                    let pos = t.choose(o2.len() + 1);
                    o2.insert(pos, gen_true(t, "export"));
                }
            }
            if variant.contains("unimock") && !has("unimock") {
                let pos = t.choose(o2.len() + 1);
                o2.insert(pos, gen_true(t, "unimock"));
            }
            Some(Pair { relation: "variant==option", item, a: (variant.to_string(), base), b: ("entrait".to_string(), render_attr(&head, &o2)) })
        }
    }
}

fn gen_true(t: &mut Tape, name: &'static str) -> Opt {
    Opt { name, form: if t.flip() { Form::Bare } else { Form::True }, text: None }
}

enum PairVerdict {
    BothAccepted { options_matter: bool, nested: bool },
    BothRejected,
}

fn check_pair(p: &Pair) -> Result<PairVerdict, String> {
    let a = e1::outcome(&p.a.0, &p.a.1, &p.item).map_err(|e| format!("HARNESS: {e}"))?;
    let b = e1::outcome(&p.b.0, &p.b.1, &p.item).map_err(|e| format!("HARNESS: {e}"))?;
    match (a, b) {
        (Outcome::Panic(m), _) | (_, Outcome::Panic(m)) => Err(format!("HARNESS-SKIP panic (C15's business): {m}")),
        (Outcome::Accepted(ta, sa), Outcome::Accepted(tb, sb)) => {
            if ta != tb {
                let at = ta.iter().zip(tb.iter()).position(|(x, y)| x != y).unwrap_or(ta.len().min(tb.len()));
                return Err(format!(
                    "relation `{}` broken: #[{}({})] and #[{}({})] expand differently (first difference at top-level token {at}: `{}` vs `{}`)",
                    p.relation,
                    p.a.0,
                    p.a.1,
                    p.b.0,
                    p.b.1,
                    crate::tok::render(&ta[at.min(ta.len())..(at + 3).min(ta.len())]),
                    crate::tok::render(&tb[at.min(tb.len())..(at + 3).min(tb.len())]),
                ));
            }
            // the invocations the macro emits itself are part of the expansion: the side standing for the `unimock` feature
            // resolves `::entrait::entrait` to the `_unimock` variant, the other side to the plain macro
            {
                if let (Ok((da, na)), Ok((db, nb))) = (e1::deep_expand(sa, p.a.0.contains("unimock")), e1::deep_expand(sb, p.b.0.contains("unimock"))) {
                    if na + nb > 0 {
                        let (da, db) = (crate::tok::toks(da), crate::tok::toks(db));
                        if da != db {
                            let at = da.iter().zip(db.iter()).position(|(x, y)| x != y).unwrap_or(da.len().min(db.len()));
                            return Err(format!(
                                "relation `{}` broken one expansion level down (the invocation the macro emits on the leaf trait of a concrete-dependency fn): #[{}({})] and #[{}({})] end up different (first difference at top-level token {at}: `{}` vs `{}`)",
                                p.relation,
                                p.a.0,
                                p.a.1,
                                p.b.0,
                                p.b.1,
                                crate::tok::render(&da[at.min(da.len())..(at + 3).min(da.len())]),
                                crate::tok::render(&db[at.min(db.len())..(at + 3).min(db.len())]),
                            ));
                        }
                        return Ok(PairVerdict::BothAccepted { options_matter: true, nested: true });
                    }
                }
            }
            // do the options matter at all? compare with the option-less invocation of the plain macro
            let head_only = p.a.1.split(',').next().unwrap_or("").to_string();
            let head_only = if head_only.contains('=') || head_only.trim() == "?Send" { String::new() } else { head_only };
            let plain = e1::outcome("entrait", &head_only, &p.item).ok();
            let options_matter = match plain {
                Some(Outcome::Accepted(tp, _)) => tp != ta,
                _ => true,
            };
            Ok(PairVerdict::BothAccepted { options_matter, nested: false })
        }
        (Outcome::Rejected(_), Outcome::Rejected(_)) => Ok(PairVerdict::BothRejected),
        (Outcome::Accepted(..), Outcome::Rejected(m)) => Err(format!(
            "relation `{}` broken: #[{}({})] is accepted but #[{}({})] is rejected: {m}",
            p.relation, p.a.0, p.a.1, p.b.0, p.b.1
        )),
        (Outcome::Rejected(m), Outcome::Accepted(..)) => Err(format!(
            "relation `{}` broken: #[{}({})] is rejected ({m}) but #[{}({})] is accepted",
            p.relation, p.a.0, p.a.1, p.b.0, p.b.1
        )),
    }
}

// ---------- acceptance matrix ----------

/// (option text, documented targets)
const MATRIX: [(&str, &[Target]); 23] = [
    // `?` belongs to `Send` only: in front of another option's name it makes an unknown option
    ("?export", &[]),
    ("?no_deps = false", &[]),
    ("?unimock = false", &[]),
    ("?mockall", &[]),
    ("?mock_api = TheMock", &[]),
    ("?delegate_by = ref", &[]),
    ("?Send = true", &[Target::Fn, Target::Mod, Target::Trait]),
    ("no_deps", &[Target::Fn]),
    ("no_deps = true", &[Target::Fn]),
    ("export", &[Target::Fn, Target::Mod]),
    ("export = false", &[Target::Fn, Target::Mod]),
    ("mock_api = TheMock", &[Target::Fn, Target::Mod, Target::Trait]),
    ("unimock", &[Target::Fn, Target::Mod, Target::Trait]),
    ("unimock = false", &[Target::Fn, Target::Mod, Target::Trait]),
    ("mockall", &[Target::Fn, Target::Mod, Target::Trait]),
    ("mockall = true", &[Target::Fn, Target::Mod, Target::Trait]),
    ("?Send", &[Target::Fn, Target::Mod, Target::Trait]),
    ("delegate_by = ref", &[Target::Trait]),
    ("delegate_by = Self", &[Target::Trait]),
    ("delegate_by = Borrow", &[Target::Trait]),
    ("delegate_by", &[Target::Trait]),
    ("TraitImpl, delegate_by = Custom", &[Target::Trait]),
    ("TraitImpl, delegate_by = ref", &[Target::Trait]),
];

pub struct MatrixCase {
    pub macro_name: String,
    pub attr: String,
    pub item: String,
    pub expect_accept: bool,
    pub option: String,
}

impl MatrixCase {
    fn json(&self) -> Value {
        json!({"engine": "E1", "kind": "matrix", "macro": self.macro_name, "attr": self.attr, "item": self.item,
               "expect": if self.expect_accept { "accept" } else { "reject" }, "option": self.option})
    }
}

fn gen_matrix_case(t: &mut Tape) -> Option<MatrixCase> {
    let (opt, documented) = MATRIX[t.choose(MATRIX.len())];
    let target = [Target::Fn, Target::Mod, Target::Trait, Target::Impl][t.choose(4)];
    // don't-care: `no_deps` on a module (table says fn; prose says module mode works mostly identically)
    if opt.starts_with("no_deps") && target == Target::Mod {
        return None;
    }
    let item = gen_item_with(t, target, false);
    let macro_name = e1::MACROS[t.weighted(&[6, 1, 1, 1])].to_string();
    let attr = match target {
        Target::Fn | Target::Mod => {
            if opt.starts_with("TraitImpl") {
                return None; // head position means "trait name" for fn/mod targets
            }
            let extra = if t.chance(1, 3) { ", mockall = false" } else { "" };
            if t.flip() {
                format!("Foo, {opt}{extra}")
            } else {
                format!("Foo{extra}, {opt}")
            }
        }
        Target::Trait if !documented.contains(&target) => {
            // an option that is not documented for traits stays rejected whatever stands next to it, in whatever position
            let mut parts: Vec<&str> = vec![];
            for c in ["delegate_by = ref", "mock_api = TrMock", "?Send", "unimock = false", "mockall = false"] {
                if t.chance(1, 3) && c.split(' ').next() != opt.split(' ').next() {
                    parts.push(c);
                }
            }
            let at = t.choose(parts.len() + 1);
            parts.insert(at, opt);
            if t.chance(1, 4) {
                parts.insert(0, "TraitImpl");
            }
            parts.join(", ")
        }
        Target::Trait => {
            if opt.starts_with("TraitImpl") || t.flip() {
                opt.to_string()
            } else {
                format!("mockall = false, {opt}")
            }
        }
        Target::Impl => {
            if opt.starts_with("TraitImpl") {
                return None;
            }
            if t.flip() {
                opt.to_string()
            } else {
                format!("ref {opt}")
            }
        }
    };
    Some(MatrixCase { macro_name, attr, item, expect_accept: documented.contains(&target), option: opt.to_string() })
}

fn check_matrix(c: &MatrixCase) -> Result<(), String> {
    // the item must be fine on its own: judge the option, nothing else
    let base_attr = match () {
        _ if c.item.contains("trait Tr") || c.item.starts_with("impl ") => "",
        _ => "Foo",
    };
    match e1::outcome("entrait", base_attr, &c.item).map_err(|e| format!("HARNESS: {e}"))? {
        Outcome::Accepted(..) => {}
        _ => return Err("HARNESS-SKIP baseline invocation not accepted".into()),
    }
    match e1::outcome(&c.macro_name, &c.attr, &c.item).map_err(|e| format!("HARNESS: {e}"))? {
        Outcome::Panic(m) => Err(format!("HARNESS-SKIP panic (C15's business): {m}")),
        Outcome::Accepted(..) if !c.expect_accept => Err(format!(
            "option `{}` is not documented for this target but #[{}({})] was accepted",
            c.option, c.macro_name, c.attr
        )),
        Outcome::Rejected(m) if c.expect_accept => Err(format!(
            "option `{}` is documented for this target but #[{}({})] was rejected: {m}",
            c.option, c.macro_name, c.attr
        )),
        _ => Ok(()),
    }
}

fn one(ctx: &mut Ctx, tape: &[u32]) -> Result<(), Fail> {
    let mut t = Tape::new(tape);
    if t.chance(1, 5) {
        let Some(c) = gen_matrix_case(&mut t) else { return Ok(()) };
        ctx.count_eval();
        return match check_matrix(&c) {
            Ok(()) => {
                ctx.class(if c.expect_accept { "matrix:accept" } else { "matrix:reject" });
                ctx.nontrivial(&("matrix", &c.attr, &c.item));
                Ok(())
            }
            Err(e) if e.starts_with("HARNESS-SKIP") => Ok(()),
            Err(e) if e.starts_with("HARNESS") => crate::ev::inconclusive(&e),
            Err(e) => Err(Fail::new(e, c.json())),
        };
    }
    let Some(p) = gen_pair(&mut t) else {
        ctx.class("no_pair_for_choice");
        return Ok(());
    };
    ctx.count_eval();
    match check_pair(&p) {
        Ok(PairVerdict::BothAccepted { options_matter, nested }) => {
            ctx.class(&format!("{}:accepted", p.relation));
            if nested {
                ctx.class(&format!("{}:accepted_with_nested_invocation_expanded", p.relation));
            }
            if options_matter {
                ctx.nontrivial(&(&p.a, &p.b, &p.item));
                ctx.sample(|| p.json());
            }
            Ok(())
        }
        Ok(PairVerdict::BothRejected) => {
            ctx.class(&format!("{}:both_rejected", p.relation));
            Ok(())
        }
        Err(e) if e.starts_with("HARNESS-SKIP") => Ok(()),
        Err(e) if e.starts_with("HARNESS") => crate::ev::inconclusive(&e),
        Err(e) => Err(Fail::new(e, p.json())),
    }
}

/// libFuzzer entry: Some(message) on a violation
pub fn fuzz_one(tape: &[u32]) -> Option<String> {
    fuzz_case(tape).map(|(m, _)| m)
}

pub fn fuzz_case(tape: &[u32]) -> Option<(String, Value)> {
    let mut t = Tape::new(tape);
    if t.chance(1, 5) {
        let c = gen_matrix_case(&mut t)?;
        return match check_matrix(&c) {
            Ok(()) => None,
            Err(e) if e.starts_with("HARNESS") => None,
            Err(e) => Some((e, c.json())),
        };
    }
    let p = gen_pair(&mut t)?;
    match check_pair(&p) {
        Ok(_) => None,
        Err(e) if e.starts_with("HARNESS") => None,
        Err(e) => Some((e, p.json())),
    }
}

/// Duplicate leg (small deterministic lattice). The statement makes an option's meaning independent of where it stands; when an
/// option is written twice with different values, *some* spelling has to win (or the invocation is rejected), and which one
/// cannot depend on the option: `X = a, X = b` expands like `X = a` alone or like `X = b` alone, the same way for every option
/// of every target and macro name. (Which way is not prescribed.)
fn duplicates_leg(ctx: &mut Ctx) -> bool {
    let fn_item = "fn foo(deps: &impl Bar, x: i32) -> i32 { x }";
    let mod_item = "mod m { pub fn foo(deps: &impl Bar, x: i32) -> i32 { x } }";
    let trait_item = "trait Tr { fn m(&self, x: i32) -> i32; }";
    // (target, item, attribute prefix, option, value 1, value 2)
    let mut points: Vec<(&str, &str, &str, &str, &str, &str)> = vec![];
    for (target, item) in [("fn", fn_item), ("mod", mod_item)] {
        points.push((target, item, "Foo", "no_deps", "true", "false"));
        points.push((target, item, "Foo, unimock, mock_api = M", "export", "true", "false"));
        points.push((target, item, "Foo, mock_api = M", "unimock", "true", "false"));
        points.push((target, item, "Foo", "mockall", "true", "false"));
        points.push((target, item, "Foo, unimock", "mock_api", "MockA", "MockB"));
        points.push((target, item, "pub Foo, unimock, export", "mock_api", "MockA", "MockB"));
    }
    points.push(("trait", trait_item, "", "unimock", "true", "false"));
    points.push(("trait", trait_item, "", "mockall", "true", "false"));
    points.push(("trait", trait_item, "unimock", "mock_api", "MockA", "MockB"));
    points.push(("trait", trait_item, "", "delegate_by", "ref", "Self"));
    points.push(("trait", trait_item, "TrImpl", "delegate_by", "ref", "DelegateTr"));
    let mut winners: Vec<(String, &'static str)> = vec![];
    for mac in e1::MACROS {
        for (target, item, prefix, opt, v1, v2) in &points {
            for (a, b) in [(v1, v2), (v2, v1)] {
                let join = |parts: &[String]| parts.iter().filter(|p| !p.is_empty()).cloned().collect::<Vec<_>>().join(", ");
                let dup = join(&[prefix.to_string(), format!("{opt} = {a}"), format!("{opt} = {b}")]);
                let first = join(&[prefix.to_string(), format!("{opt} = {a}")]);
                let last = join(&[prefix.to_string(), format!("{opt} = {b}")]);
                let run = |attr: &str| e1::outcome(mac, attr, item).unwrap_or_else(|e| crate::ev::inconclusive(&format!("HARNESS: {e}")));
                let (d, f, l) = (run(&dup), run(&first), run(&last));
                ctx.count_eval();
                let toks = |o: &Outcome| match o {
                    Outcome::Accepted(_, ts) => Some(crate::tok::toks(ts.clone())),
                    _ => None,
                };
                if matches!(d, Outcome::Panic(_)) || matches!(f, Outcome::Panic(_)) || matches!(l, Outcome::Panic(_)) {
                    continue; // C15's business
                }
                let what = format!("#[{mac}({dup})] on a {target}");
                // (a rejected invocation compares equal to a rejected one: the winning spelling may itself be invalid here)
                let (df, dl) = (toks(&d) == toks(&f), toks(&d) == toks(&l));
                let winner = match (toks(&f) == toks(&l), df, dl) {
                    (true, _, _) => {
                        ctx.class("duplicates:values_do_not_differ_here");
                        continue;
                    }
                    (false, true, false) => "first",
                    (false, false, true) => "last",
                    _ if toks(&d).is_none() => "rejected",
                    _ => {
                        ctx.violation(
                            &format!("an option written twice resolves to neither of its spellings: {what} expands unlike `{first}` and unlike `{last}`"),
                            &json!({"engine": "E1", "kind": "duplicate", "macro": mac, "attr": dup, "first": first, "last": last, "item": item}),
                        );
                        return false;
                    }
                };
                ctx.class(&format!("duplicates:{winner}_wins"));
                ctx.nontrivial(&("duplicate", mac, &dup, item));
                winners.push((what, winner));
            }
        }
    }
    if let Some((w0, first_kind)) = winners.first().cloned() {
        if let Some((w, kind)) = winners.iter().find(|(_, k)| *k != first_kind) {
            ctx.violation(
                &format!("options written twice are not resolved the same way everywhere: in {w0} the {first_kind} spelling wins, in {w} the {kind} one"),
                &json!({"engine": "E1", "kind": "duplicate-uniformity", "a": w0, "b": w}),
            );
            return false;
        }
    }
    true
}

pub fn run(ctx: &mut Ctx) {
    ctx.rule = "cases = metamorphic pairs (two attribute spellings / macro variants for one generated fn|mod|trait item) for the relations bare==true, \
                false==omitted, order independence, variant==option, plus option x target acceptance-matrix points; a pair is non-trivial when both sides are \
                accepted and the options change the expansion relative to the option-less invocation; matrix points always count; distinct = distinct text"
        .into();
    ctx.assumptions.push("E1 models the facade's feature switch as the `_unimock` macro variants; the facade mapping itself is observed by the E2 leg (C10)".into());
    ctx.assumptions.push("don't-cares: `no_deps` on a module, the undocumented `debug` option".into());
    ctx.assumptions.push("duplicate leg: which spelling of a twice-written option wins is not prescribed, only that it is one of them (or a rejection) and the same rule for every option, target and macro name".into());
    let cases = ctx.n(150_000, 3_000_000);
    if !run_tapes_par(ctx, 17, cases, 300, one) {
        return;
    }
    if !duplicates_leg(ctx) {
        return;
    }
    crate::fuzzrun::replay_corpus(ctx, "c17_metamorphic", fuzz_case);
    if !ctx.violations.is_empty() {
        return;
    }
    if !ctx.quick() {
        crate::fuzzrun::campaign(ctx, "c17_metamorphic", fuzz_case, 300_000);
    }
}

pub fn replay(ctx: &mut Ctx, v: &Value) {
    use super::s;
    if s(v, "kind").starts_with("duplicate") {
        // the lattice is small and deterministic: replaying a point of it means running it again
        duplicates_leg(ctx);
        return;
    }
    ctx.count_eval();
    let r = if s(v, "kind") == "matrix" {
        check_matrix(&MatrixCase {
            macro_name: s(v, "macro"),
            attr: s(v, "attr"),
            item: s(v, "item"),
            expect_accept: s(v, "expect") == "accept",
            option: s(v, "option"),
        })
    } else {
        check_pair(&Pair { relation: "replayed", item: s(v, "item"), a: (s(v, "macro_a"), s(v, "attr_a")), b: (s(v, "macro_b"), s(v, "attr_b")) }).map(|_| ())
    };
    match r {
        Ok(()) => {}
        Err(e) if e.starts_with("HARNESS") => crate::ev::inconclusive(&e),
        Err(e) => ctx.violation(&e, v),
    }
}
