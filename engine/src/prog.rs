//! Program model for the compiled-client (E2) properties: entraited fns / modules whose bodies record
//! `(fn tag, deps identity, arguments)` in a thread-local trace and return an injective function of the same triple.
//! Everything rendered here must be *valid Rust that compiles*; the oracle lives in the generated client code.

use crate::tape::Tape;

#[derive(Clone, Copy, Debug, PartialEq, Eq, Hash)]
pub enum VT {
    I32,
    U8,
    Bool,
    Str,
    String,
    Pair,
    Opt,
    NewT,
    St,
    MutVec,
    Gen,
    RefI32,
}

impl VT {
    pub const ALL: [VT; 12] = [VT::I32, VT::I32, VT::Str, VT::String, VT::U8, VT::Bool, VT::Pair, VT::Opt, VT::NewT, VT::St, VT::MutVec, VT::Gen];

    pub fn ty(&self, gen_name: &str) -> String {
        match self {
            VT::I32 => "i32".into(),
            VT::U8 => "u8".into(),
            VT::Bool => "bool".into(),
            VT::Str => "&str".into(),
            VT::String => "String".into(),
            VT::Pair => "(i32, i32)".into(),
            VT::Opt => "Option<i32>".into(),
            VT::NewT => "N".into(),
            VT::St => "S".into(),
            VT::MutVec => "&mut Vec<i32>".into(),
            VT::Gen => gen_name.to_string(),
            VT::RefI32 => "&i32".into(),
        }
    }

    /// argument expression for position k: values are pairwise distinct across positions
    pub fn expr(&self, k: usize) -> String {
        let v = 11 * (k as i64 + 1);
        match self {
            VT::I32 => format!("{v}i32"),
            VT::U8 => format!("{}u8", v % 250),
            VT::Bool => if k % 2 == 0 { "true".into() } else { "false".into() },
            VT::Str => format!("\"s{v}\""),
            VT::String => format!("String::from(\"o{v}\")"),
            VT::Pair => format!("({v}i32, {}i32)", v + 1),
            VT::Opt => format!("Some({v}i32)"),
            VT::NewT => format!("N({v})"),
            VT::St => format!("S {{ a: {v} }}"),
            VT::MutVec => format!("&mut vec_{k}"),
            VT::Gen => format!("{v}i64"),
            VT::RefI32 => format!("&{v}i32"),
        }
    }

    /// inside the conservative alphabet the mocking crates are known to handle
    pub fn mock_ok(&self) -> bool {
        matches!(self, VT::I32 | VT::U8 | VT::Bool | VT::String | VT::Pair | VT::Opt | VT::NewT | VT::St)
    }
}

#[derive(Clone, Copy, Debug, PartialEq, Eq, Hash)]
pub enum PK {
    Plain,
    Wild,
    Mut,
    Ref,
    Destructure,
    FnNamed,
}

#[derive(Clone, Debug)]
pub struct Param {
    pub vt: VT,
    pub pk: PK,
    pub name: String,
}

impl Param {
    pub fn pat(&self, fn_name: &str) -> String {
        let n = &self.name;
        match self.pk {
            PK::Plain => n.clone(),
            PK::Wild => "_".into(),
            PK::Mut => format!("mut {n}"),
            PK::Ref => format!("ref {n}"),
            PK::FnNamed => fn_name.to_string(),
            PK::Destructure => match self.vt {
                VT::Pair => format!("({n}, {n}_2)"),
                VT::NewT => format!("N({n})"),
                VT::St => format!("S {{ a: {n} }}"),
                VT::Opt => n.clone(),
                _ => n.clone(),
            },
        }
    }

    /// a `String`-valued expression describing the received argument (None: not observable)
    pub fn trace_expr(&self, fn_name: &str) -> Option<String> {
        let n = if self.pk == PK::FnNamed { fn_name.to_string() } else { self.name.clone() };
        Some(match self.pk {
            PK::Wild => return None,
            PK::Destructure => match self.vt {
                VT::Pair => format!("format!(\"({{:?}}, {{:?}})\", {n}, {n}_2)"),
                VT::NewT => format!("format!(\"N({{:?}})\", {n})"),
                VT::St => format!("format!(\"S{{:?}}\", {n})"),
                _ => format!("format!(\"{{:?}}\", {n})"),
            },
            _ => format!("format!(\"{{:?}}\", {n})"),
        })
    }
}

#[derive(Clone, Copy, Debug, PartialEq, Eq, Hash)]
pub enum Deps {
    RefGeneric,
    RefImpl,
    ValGeneric,
    ValImpl,
    NoDeps,
    Concrete,
}

impl Deps {
    pub fn by_value(&self) -> bool {
        matches!(self, Deps::ValGeneric | Deps::ValImpl)
    }
}

#[derive(Clone, Debug)]
pub struct FnSpec {
    pub name: String,
    pub tag: String,
    pub vis: String,
    pub is_async: bool,
    pub deps: Deps,
    /// dependency bounds B<k> (each is *used* by the body)
    pub bounds: Vec<usize>,
    /// how many of the bounds go to the where clause (generic forms only)
    pub bounds_in_where: usize,
    pub params: Vec<Param>,
    pub has_gen: bool,
    /// no written return type: only the trace shows that (and how) the fn ran
    pub ret_unit: bool,
    /// async under `?Send`: the body keeps a !Send value alive across its await point
    pub hold_rc: bool,
    /// `-> &str` borrowed from the parameter with this index: the only reference-typed parameter of a fn that has no
    /// dependency reference, so the elided output lifetime is that parameter's
    pub ret_borrow: Option<usize>,
}

/// Parameter names whose alphabetical order differs from their declared order (a bug that sorts or hashes names must show).
pub const NAME_POOL: [&str; 8] = ["zed", "alpha", "mid", "quux", "beta", "yak", "cee", "kilo"];

/// Names for the fns of a module / the methods of a trait: declared order differs from alphabetical order.
pub const MEMBER_POOL: [&str; 6] = ["zulu", "bravo", "november", "alfa", "mike", "delta"];

pub fn member_names(t: &mut Tape, n: usize) -> Vec<String> {
    let perm = t.permutation(MEMBER_POOL.len());
    (0..n).map(|i| format!("{}{}", MEMBER_POOL[perm[i % MEMBER_POOL.len()]], if i >= MEMBER_POOL.len() { i.to_string() } else { String::new() })).collect()
}

pub fn param_names(t: &mut Tape, n: usize) -> Vec<String> {
    let perm = t.permutation(NAME_POOL.len());
    (0..n).map(|i| NAME_POOL[perm[i % NAME_POOL.len()]].to_string()).collect()
}

pub fn gen_params(t: &mut Tape, max: usize, allow_patterns: bool, mock_safe: bool) -> Vec<Param> {
    let n = t.weighted(&[1, 3, 4, 3, 2, 1, 1]).min(max);
    let mut out: Vec<Param> = vec![];
    for i in 0..n {
        // bias: repeat the previous parameter's type (adjacent equal types are what positional bugs need)
        let vt = if i > 0 && t.chance(1, 2) { out[i - 1].vt } else { *t.pick(&VT::ALL) };
        let vt = if mock_safe && !vt.mock_ok() { VT::I32 } else { vt };
        let pk = if !allow_patterns {
            PK::Plain
        } else {
            match t.weighted(&[10, 1, 1, 1, 2]) {
                0 => PK::Plain,
                1 => PK::Wild,
                2 => PK::Mut,
                3 => PK::Ref,
                _ => {
                    if matches!(vt, VT::Pair | VT::NewT | VT::St) {
                        PK::Destructure
                    } else {
                        PK::Plain
                    }
                }
            }
        };
        // `&mut` arguments are observed after the call: keep them nameable
        let pk = if vt == VT::MutVec && !matches!(pk, PK::Plain) { PK::Plain } else { pk };
        out.push(Param { vt, pk, name: format!("p{i}") });
    }
    let names = param_names(t, out.len());
    for (p, n) in out.iter_mut().zip(names) {
        p.name = n;
    }
    out
}

impl FnSpec {
    pub fn generic_name(&self) -> &'static str {
        "T"
    }

    fn bounds_src(&self, extra: &[&str]) -> (String, String) {
        // returns (inline bounds after `D`, where predicates on D)
        let mut all: Vec<String> = extra.iter().map(|s| s.to_string()).collect();
        all.extend(self.bounds.iter().map(|b| bound_name(*b)));
        let k = self.bounds_in_where.min(all.len());
        let split = all.len() - k;
        (all[..split].join(" + "), all[split..].join(" + "))
    }

    pub fn signature(&self) -> String {
        let mut generics: Vec<String> = vec![];
        let mut wheres: Vec<String> = vec![];
        let mut params: Vec<String> = vec![];
        let extra: Vec<&str> = if self.deps.by_value() { vec!["crate::rt::HasId"] } else { vec![] };
        match self.deps {
            Deps::RefGeneric | Deps::ValGeneric => {
                let (inline, wher) = self.bounds_src(&extra);
                generics.push(if inline.is_empty() { "D".into() } else { format!("D: {inline}") });
                if !wher.is_empty() {
                    wheres.push(format!("D: {wher}"));
                }
                params.push(if self.deps == Deps::RefGeneric { "deps: &D".into() } else { "deps: D".into() });
            }
            Deps::RefImpl | Deps::ValImpl => {
                let mut all: Vec<String> = extra.iter().map(|s| s.to_string()).collect();
                all.extend(self.bounds.iter().map(|b| bound_name(*b)));
                if all.is_empty() {
                    all.push("Sized".into());
                }
                let b = all.join(" + ");
                params.push(if self.deps == Deps::RefImpl { format!("deps: &(impl {b})") } else { format!("deps: impl {b}") });
            }
            Deps::Concrete => params.push("deps: &Conf".into()),
            Deps::NoDeps => {}
        }
        if self.has_gen {
            generics.push(format!("T: ::core::fmt::Debug{}", if self.is_async { " + Send + Sync" } else { "" }));
        }
        for p in &self.params {
            params.push(format!("{}: {}", p.pat(&self.name), p.vt.ty("T")));
        }
        let g = if generics.is_empty() { String::new() } else { format!("<{}>", generics.join(", ")) };
        let w = if wheres.is_empty() { String::new() } else { format!(" where {}", wheres.join(", ")) };
        format!("{}{}fn {}{g}({}){}{w}", if self.vis.is_empty() { String::new() } else { format!("{} ", self.vis) }, if self.is_async { "async " } else { "" }, self.name, params.join(", "), if self.ret_borrow.is_some() { " -> &str" } else if self.ret_unit { "" } else { " -> String" })
    }

    pub fn body(&self) -> String {
        let mut s = String::from("{\n");
        let id = match self.deps {
            Deps::RefGeneric | Deps::RefImpl | Deps::Concrete => "crate::rt::addr(deps)".to_string(),
            Deps::ValGeneric | Deps::ValImpl => "crate::rt::HasId::id(&deps) as usize".to_string(),
            Deps::NoDeps => "0usize".to_string(),
        };
        s.push_str(&format!("    let __id: usize = {id};\n"));
        let mut parts = vec![];
        for (i, p) in self.params.iter().enumerate() {
            if let Some(e) = p.trace_expr(&self.name) {
                s.push_str(&format!("    let __a{i}: String = {e};\n"));
                parts.push(format!("__a{i}"));
            }
            if p.vt == VT::MutVec {
                s.push_str(&format!("    {}.push({});\n", p.name, 1000 + i));
            }
        }
        if self.is_async {
            if self.hold_rc {
                s.push_str("    let __rc = ::std::rc::Rc::new(0u8);\n    crate::rt::yield_once().await;\n    let _ = *__rc;\n");
            } else {
                s.push_str("    crate::rt::yield_once().await;\n");
            }
        }
        let mut sum = String::from("0u32");
        if self.deps != Deps::NoDeps && self.deps != Deps::Concrete {
            for b in &self.bounds {
                sum.push_str(&format!(" + {}", bound_call(*b, self.deps.by_value())));
            }
        }
        s.push_str(&format!("    let __sum: u32 = {sum};\n"));
        let args = if parts.is_empty() { "String::new()".to_string() } else { format!("[{}].join(\",\")", parts.iter().map(|p| format!("{p}.as_str()")).collect::<Vec<_>>().join(", ")) };
        s.push_str(&format!("    let __r = format!(\"{}|{{}}|{{}}|{{}}\", __id, {args}, __sum);\n", self.tag));
        if let Some(i) = self.ret_borrow {
            s.push_str(&format!("    crate::rt::trace(__r.clone());\n    {}\n}}", self.params[i].name));
            return s;
        }
        s.push_str(if self.ret_unit { "    crate::rt::trace(__r.clone());\n}" } else { "    crate::rt::trace(__r.clone());\n    __r\n}" });
        s
    }

    pub fn render(&self, attrs: &str) -> String {
        format!("{attrs}{} {}", self.signature(), self.body())
    }

    /// argument list source for a call (fresh expressions each time)
    pub fn call_args(&self) -> String {
        self.params.iter().enumerate().map(|(i, p)| p.vt.expr(i)).collect::<Vec<_>>().join(", ")
    }

    /// `let mut vec_k = vec![..];` declarations needed by `&mut Vec` arguments (suffix distinguishes the call)
    pub fn vec_decls(&self) -> String {
        self.params.iter().enumerate().filter(|(_, p)| p.vt == VT::MutVec).map(|(i, _)| format!("let mut vec_{i}: Vec<i32> = vec![{}];\n", i + 1)).collect()
    }

    pub fn vec_names(&self) -> Vec<String> {
        self.params.iter().enumerate().filter(|(_, p)| p.vt == VT::MutVec).map(|(i, _)| format!("vec_{i}")).collect()
    }

    pub fn turbofish(&self) -> &'static str {
        ""
    }
}

/// bounds 0..=2 are plain traits `B<k>`; 3 and 4 are two instantiations of one generic trait (same path, different arguments)
pub fn bound_name(b: usize) -> String {
    match b {
        3 => "GB<i32>".to_string(),
        4 => "GB<u8>".to_string(),
        b => format!("B{b}"),
    }
}

/// the call a fn body makes through bound `b` of its `deps`
pub fn bound_call(b: usize, by_value: bool) -> String {
    let recv = if by_value { "&deps" } else { "deps" };
    match b {
        3 => format!("<_ as GB<i32>>::gb({recv})"),
        4 => format!("<_ as GB<u8>>::gb({recv})"),
        b => format!("deps.b{b}()"),
    }
}

/// Shared prelude of a case module: value types, bound traits, the application type.
pub fn prelude(max_bound: usize, feature_unimock: bool) -> String {
    let mut s = String::from(
        "#![allow(warnings)]\nuse crate::rt;\n\
         #[derive(Debug, Clone, PartialEq)] pub struct N(pub i32);\n\
         #[derive(Debug, Clone, PartialEq)] pub struct S { pub a: i32 }\n\
         #[derive(Debug, Clone)] pub struct App { pub id: u32 }\n\
         #[derive(Debug, Clone)] pub struct Conf { pub id: u32 }\n\
         impl rt::HasId for ::entrait::Impl<App> { fn id(&self) -> u32 { self.id } }\n\
         pub fn mk_app(id: u32) -> ::entrait::Impl<App> { ::entrait::Impl::new(App { id }) }\n",
    );
    s.push_str("pub trait GB<E> { fn gb(&self) -> u32; }\nimpl GB<i32> for ::entrait::Impl<App> { fn gb(&self) -> u32 { 400 + self.id } }\nimpl GB<u8> for ::entrait::Impl<App> { fn gb(&self) -> u32 { 500 + self.id } }\n");
    if feature_unimock {
        s.push_str("impl GB<i32> for ::unimock::Unimock { fn gb(&self) -> u32 { 400 } }\nimpl GB<u8> for ::unimock::Unimock { fn gb(&self) -> u32 { 500 } }\n");
    }
    for b in 0..max_bound.min(3) {
        s.push_str(&format!("pub trait B{b} {{ fn b{b}(&self) -> u32; }}\nimpl B{b} for ::entrait::Impl<App> {{ fn b{b}(&self) -> u32 {{ {} + self.id }} }}\n", 100 * (b + 1)));
        if feature_unimock {
            // exported unimock derivations un-mock through `fn(&Unimock, ..)`: the mock object must satisfy the deps bounds too
            s.push_str(&format!("impl B{b} for ::unimock::Unimock {{ fn b{b}(&self) -> u32 {{ {} }} }}\n", 100 * (b + 1)));
        }
    }
    s
}
