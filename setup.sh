#!/bin/bash
# Builds the framework offline from files on disk only.
set -e
cd "$(dirname "$0")"
export CARGO_NET_OFFLINE=true
mkdir -p work evidence
( cd engine && cargo build --release --offline )
# pre-build the dependency sets of the generated client crates (syn, unimock, mockall, async-trait)
VERIF_ROOT="$(pwd)" engine/target/release/engine warm
echo "setup done"
