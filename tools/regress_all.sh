#!/bin/bash
cd /verif
for id in C01 C02 C03 C04 C05 C06 C07 C08 C09 C10 C11 C12 C13 C14 C15 C16 C17 C18 C19 C20; do ./check $id 2>&1 | grep -E "^(OK|VIOLATION|INCONCLUSIVE)" | cut -c1-160; done
echo "=== mutants"
tools/run_mutants.sh
echo "=== seeds r8 r9"
for r in r8 r9 r10; do for id in C01 C02 C03 C04 C05 C06 C07 C08 C09 C10 C11 C12 C13 C14 C15 C16 C17 C18 C19 C20; do
  by=$(jq -r ".caught_by[0] // empty" seeded/$id-$r/meta.json)
  if [ -z "$by" ]; then echo "$id-$r -> (recorded as outside every listed statement) | skipped"; continue; fi
  echo "$id-$r -> $by | $(tools/mutant.sh seeded/$id-$r/patch.diff $by 2>&1 | tail -1 | cut -c1-140)"
done; done
