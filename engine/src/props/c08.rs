//! C08 — module mode: the trait's methods are exactly the module's non-private functions.
//!
//! Ground truth comes from the generator's spec (ordered names of direct-child fns with an explicit visibility and a body),
//! never from the macro's own analysis. E1 oracle: the trait of the requested name inside the emitted module has exactly
//! those methods, in order; after the module there is a `use` of that trait with the requested visibility.

use crate::drive::{run_tapes_par, Fail};
use crate::e1::{self, Outcome};
use crate::ev::Ctx;
use crate::gen::{self, FnGenCfg, ModItemKind};
use crate::tape::Tape;
use proc_macro2::{Delimiter, TokenStream, TokenTree};
use quote::ToTokens;
use crate::tok;
use serde_json::{json, Value};

pub struct Case {
    pub macro_name: String,
    pub attr: String,
    pub item: String,
    pub trait_name: String,
    pub trait_vis: String,
    pub expected: Vec<String>,
    pub nontrivial: bool,
    /// `<attrs> <vis> mod <name>` and the module's items one by one (for `wrapped`)
    pub mod_header: String,
    pub items: Vec<String>,
    /// indices of items that reach the macro as `macro_rules!` `$i:item` fragments: one group with invisible delimiters each
    pub wrapped: Vec<usize>,
    /// indices of fn items whose body reaches the macro as a `$b:block` fragment: a `{..}` inside invisible delimiters
    pub wrapped_bodies: Vec<usize>,
    /// inner attributes / inner doc comments at the top of the module body
    pub inner_attrs: String,
}

impl Case {
    pub fn json(&self) -> Value {
        json!({"engine": "E1", "macro": self.macro_name, "attr": self.attr, "item": self.item,
               "trait_name": self.trait_name, "trait_vis": self.trait_vis, "expected_methods": self.expected,
               "mod_header": self.mod_header, "items": self.items, "wrapped": self.wrapped, "wrapped_bodies": self.wrapped_bodies, "inner_attrs": self.inner_attrs})
    }

    /// the module as a token stream, with the `wrapped` items inside invisible groups
    pub fn item_stream(&self) -> Result<TokenStream, String> {
        let mut body = tok::parse_src(&self.inner_attrs).map_err(|e| format!("HARNESS: {e}"))?;
        for (i, it) in self.items.iter().enumerate() {
            let ts = tok::parse_src(it).map_err(|e| format!("HARNESS: {e}"))?;
            if self.wrapped_bodies.contains(&i) {
                // everything up to the last `{..}` as written, the `{..}` inside a group with invisible delimiters
                let mut tts: Vec<TokenTree> = ts.into_iter().collect();
                let block = tts.pop().ok_or("HARNESS: empty fn item")?;
                if !matches!(&block, TokenTree::Group(g) if g.delimiter() == Delimiter::Brace) {
                    return Err("HARNESS: fn item does not end in a block".into());
                }
                body.extend(tts);
                body.extend(std::iter::once(TokenTree::Group(proc_macro2::Group::new(Delimiter::None, std::iter::once(block).collect()))));
            } else if self.wrapped.contains(&i) {
                body.extend(std::iter::once(TokenTree::Group(proc_macro2::Group::new(Delimiter::None, ts))));
            } else {
                body.extend(ts);
            }
        }
        let mut out = tok::parse_src(&self.mod_header).map_err(|e| format!("HARNESS: {e}"))?;
        out.extend(std::iter::once(TokenTree::Group(proc_macro2::Group::new(Delimiter::Brace, body))));
        Ok(out)
    }
}

pub fn gen_case(t: &mut Tape) -> Case {
    let macro_name = e1::MACROS[t.weighted(&[5, 2, 2, 1])].to_string();
    let cfg = FnGenCfg { allow_concrete: false, allow_no_deps: false, allow_leading_unsafe: true, rich_syntax: true, soup_bodies: true };
    let n = t.range(0, 8);
    let mut items = vec![];
    let mut expected = vec![];
    let mut decoys = 0;
    for i in 0..n {
        let it = gen::gen_mod_item(t, i, &cfg);
        if let ModItemKind::VisibleFn(name) = &it.kind {
            expected.push(name.clone());
        }
        if it.decoy {
            decoys += 1;
        }
        items.push(it.src);
    }
    let trait_vis = gen::gen_vis(t);
    let trait_name = (*t.pick(&["Foo", "TheTrait", "Api"])).to_string();
    let mut attr = if trait_vis.is_empty() { trait_name.clone() } else { format!("{trait_vis} {trait_name}") };
    for _ in 0..t.weighted(&[5, 3, 1]) {
        attr.push_str(", ");
        attr.push_str(*t.pick(&["export", "?Send", "mock_api = FooMock", "unimock", "unimock = false", "mockall"]));
    }
    let mod_attrs = gen::gen_attrs(t, 2).join(" ");
    let mod_vis = gen::gen_vis(t);
    // the module's own name: ordinary, raw-identifier (keyword or not), unusual casing
    let mod_name = *t.pick(&["the_mod", "the_mod", "m", "r#match", "r#type", "r#plain", "Mod9", "_m"]);
    // inner attributes and inner doc comments at the top of the module
    let inner_attrs = if t.chance(1, 6) { (*t.pick(&["//! inner doc\n", "#![allow(unused)]\n", "/*! block inner doc */ #![allow(dead_code)] #![doc = \"more\"]\n"])).to_string() } else { String::new() };
    let item = format!("{mod_attrs} {mod_vis} mod {mod_name} {{\n{inner_attrs}{}\n}}", items.join("\n"));
    let nontrivial = !expected.is_empty() && decoys > 0;
    // some items arrive as `$i:item` fragments (only items that are exactly one item can)
    let mut wrapped = vec![];
    if t.chance(1, 5) {
        for (i, it) in items.iter().enumerate() {
            if t.chance(1, 2) && syn::parse_str::<syn::File>(it).map(|f| f.items.len() == 1).unwrap_or(false) {
                wrapped.push(i);
            }
        }
    }
    // ... and some fn bodies as `$b:block` fragments (items that are exactly one fn item with a body)
    let mut wrapped_bodies = vec![];
    if t.chance(1, 5) {
        for (i, it) in items.iter().enumerate() {
            if !wrapped.contains(&i) && t.chance(1, 2) && syn::parse_str::<syn::ItemFn>(it).is_ok() {
                wrapped_bodies.push(i);
            }
        }
    }
    Case { macro_name, attr, item, trait_name, trait_vis, expected, nontrivial, mod_header: format!("{mod_attrs} {mod_vis} mod {mod_name}"), items, wrapped, wrapped_bodies, inner_attrs }
}

fn find_module_body(ts: &TokenStream) -> Option<(TokenStream, TokenStream)> {
    // returns (module body stream, tokens after the module item)
    let mut iter = ts.clone().into_iter();
    let mut seen_mod = false;
    while let Some(tt) = iter.next() {
        match &tt {
            TokenTree::Ident(i) if i == "mod" => seen_mod = true,
            TokenTree::Group(g) if seen_mod && g.delimiter() == Delimiter::Brace => {
                return Some((g.stream(), iter.collect()));
            }
            _ => {}
        }
    }
    None
}

/// the generated trait: `trait <name> ... { ... }` at the top level of the module body
fn find_trait(body: &TokenStream, name: &str) -> Option<syn::ItemTrait> {
    let tts: Vec<TokenTree> = body.clone().into_iter().collect();
    for i in 0..tts.len().saturating_sub(1) {
        if let (TokenTree::Ident(a), TokenTree::Ident(b)) = (&tts[i], &tts[i + 1]) {
            if a == "trait" && b == name {
                let mut s = TokenStream::new();
                for tt in &tts[i..] {
                    s.extend(std::iter::once(tt.clone()));
                    if let TokenTree::Group(g) = tt {
                        if g.delimiter() == Delimiter::Brace {
                            break;
                        }
                    }
                }
                if let Ok(t) = syn::parse2::<syn::ItemTrait>(s) {
                    return Some(t);
                }
            }
        }
    }
    None
}

pub fn check(c: &Case) -> Result<&'static str, String> {
    let fragments = !c.wrapped.is_empty() || !c.wrapped_bodies.is_empty();
    let outcome = if !fragments {
        e1::outcome(&c.macro_name, &c.attr, &c.item).map_err(|e| format!("HARNESS: {e}"))?
    } else {
        e1::outcome_ts(&c.macro_name, tok::parse_src(&c.attr).map_err(|e| format!("HARNESS: {e}"))?, c.item_stream()?)
    };
    let out = match outcome {
        Outcome::Accepted(_, ts) => ts,
        // a module is accepted or rejected for what its items are, not for how they were handed over
        Outcome::Rejected(m) if fragments => {
            return match e1::outcome(&c.macro_name, &c.attr, &c.item).map_err(|e| format!("HARNESS: {e}"))? {
                Outcome::Accepted(..) => Err(format!("the module is rejected (`{m}`) when items {:?} arrive as `$i:item` fragments and the bodies of items {:?} as `$b:block` fragments, and accepted when they are written out", c.wrapped, c.wrapped_bodies)),
                _ => Ok("rejected"),
            };
        }
        // ... nor for the inner attributes at its top
        Outcome::Rejected(m) if !c.inner_attrs.is_empty() => {
            let plain = c.item.replacen(&c.inner_attrs, "", 1);
            return match e1::outcome(&c.macro_name, &c.attr, &plain).map_err(|e| format!("HARNESS: {e}"))? {
                Outcome::Accepted(..) => Err(format!("the module is rejected (`{m}`) because of the inner attributes `{}` at its top, and accepted without them", c.inner_attrs.trim())),
                _ => Ok("rejected"),
            };
        }
        Outcome::Rejected(_) => return Ok("rejected"),
        Outcome::Panic(_) => return Ok("panic"),
    };
    let (body, after) = find_module_body(&out).ok_or("expansion contains no module with a brace body")?;
    let tr = find_trait(&body, &c.trait_name).ok_or_else(|| format!("no `trait {}` inside the emitted module", c.trait_name))?;
    let methods: Vec<String> = tr
        .items
        .iter()
        .filter_map(|it| if let syn::TraitItem::Fn(f) = it { Some(f.sig.ident.to_string()) } else { None })
        .collect();
    if methods != c.expected {
        return Err(format!(
            "trait `{}` has methods {:?} but the module's non-private fns with a body are {:?}",
            c.trait_name, methods, c.expected
        ));
    }
    // the re-export: `<vis> use ...::<Trait>;` (or `... as <Trait>`) with exactly the requested visibility
    let file: syn::File = syn::parse2(after.clone()).map_err(|e| format!("tokens after the module do not parse as items: {e}"))?;
    let want_vis = crate::tok::toks_of_src(&c.trait_vis).map_err(|e| format!("HARNESS: {e}"))?;
    let mut found = false;
    for item in &file.items {
        if let syn::Item::Use(u) = item {
            if use_imports(&u.tree, &c.trait_name) {
                let got_vis = crate::tok::toks(u.vis.to_token_stream());
                if got_vis != want_vis {
                    return Err(format!(
                        "trait `{}` is re-exported from the module with visibility `{}` but `{}` was requested",
                        c.trait_name,
                        crate::tok::render(&got_vis),
                        c.trait_vis
                    ));
                }
                found = true;
            }
        }
    }
    if !found {
        return Err(format!("trait `{}` is not imported into the module's parent scope (no `use` after the module)", c.trait_name));
    }
    Ok("accepted")
}

fn use_imports(tree: &syn::UseTree, name: &str) -> bool {
    match tree {
        syn::UseTree::Path(p) => use_imports(&p.tree, name),
        syn::UseTree::Name(n) => n.ident == name,
        syn::UseTree::Rename(r) => r.rename == name,
        syn::UseTree::Glob(_) => false,
        syn::UseTree::Group(g) => g.items.iter().any(|t| use_imports(t, name)),
    }
}

fn one(ctx: &mut Ctx, tape: &[u32]) -> Result<(), Fail> {
    let mut t = Tape::new(tape);
    let c = gen_case(&mut t);
    ctx.count_eval();
    match check(&c) {
        Ok(class) => {
            ctx.class(class);
            if class == "accepted" {
                ctx.class(&format!("visible_fns={}", c.expected.len().min(4)));
                if !c.wrapped.is_empty() {
                    ctx.class("items_as_item_fragments");
                }
                if !c.wrapped_bodies.is_empty() {
                    ctx.class("fn_bodies_as_block_fragments");
                }
                if !c.inner_attrs.is_empty() {
                    ctx.class("inner_attributes");
                }
                if c.nontrivial {
                    ctx.nontrivial(&(&c.attr, &c.item));
                    ctx.sample(|| c.json());
                }
            }
            Ok(())
        }
        Err(e) if e.starts_with("HARNESS") => crate::ev::inconclusive(&e),
        Err(e) => Err(Fail::new(e, c.json())),
    }
}

pub fn run(ctx: &mut Ctx) {
    ctx.rule = "cases = entraited inline modules decoded from a proptest choice tape: 0..8 items mixing visible fns (every qualifier and visibility spelling), \
                private fns, body-less declarations and decoy items containing `fn` tokens (fn pointers, impls, nested mods, extern blocks, macro bodies, const blocks), \
                with a requested trait name/visibility; non-trivial = accepted by the macro, >=1 visible fn and >=1 private fn / body-less fn / decoy; \
                distinct = distinct (attr, module) text"
        .into();
    let cases = ctx.n(150_000, 3_000_000);
    if run_tapes_par(ctx, 8, cases, 500, one) {
        e2_leg(ctx);
    }
}

pub fn replay(ctx: &mut Ctx, v: &Value) {
    use super::s;
    if s(v, "engine") == "E2" {
        let mut b = crate::e2::Batch::new("c08-replay", crate::e2::Opts { members: 1, ..Default::default() });
        b.add("c00000", s(v, "src"));
        let out = b.build_and_run();
        b.cleanup();
        ctx.count_eval();
        let compiled = out.compile_failed.is_empty();
        match (s(v, "expect").as_str(), compiled) {
            ("rejected", true) => ctx.violation("a non-method is callable through the trait", v),
            ("rejected", false) => {}
            (_, false) => ctx.violation("the parent-scope client does not compile", v),
            (_, true) => {
                if out.ran.get("c00000").map(|(st, _)| st != "ok").unwrap_or(true) {
                    ctx.violation("a trait method does not reach its module fn", v);
                }
            }
        }
        return;
    }
    let expected = v.get("expected_methods").and_then(|a| a.as_array()).map(|a| a.iter().filter_map(|x| x.as_str().map(String::from)).collect()).unwrap_or_default();
    let c = Case { macro_name: s(v, "macro"), attr: s(v, "attr"), item: s(v, "item"), trait_name: s(v, "trait_name"), trait_vis: s(v, "trait_vis"), expected, nontrivial: true,
        mod_header: s(v, "mod_header"),
        items: v.get("items").and_then(|a| a.as_array()).map(|a| a.iter().filter_map(|x| x.as_str().map(String::from)).collect()).unwrap_or_default(),
        wrapped: v.get("wrapped").and_then(|a| a.as_array()).map(|a| a.iter().filter_map(|x| x.as_u64().map(|n| n as usize)).collect()).unwrap_or_default(),
        wrapped_bodies: v.get("wrapped_bodies").and_then(|a| a.as_array()).map(|a| a.iter().filter_map(|x| x.as_u64().map(|n| n as usize)).collect()).unwrap_or_default(),
        inner_attrs: v.get("inner_attrs").and_then(|x| x.as_str()).unwrap_or("").to_string() };
    ctx.count_eval();
    match check(&c) {
        Ok(_) => {}
        Err(e) if e.starts_with("HARNESS") => crate::ev::inconclusive(&e),
        Err(e) => ctx.violation(&e, v),
    }
}

// ---------- E2 leg: the trait is importable from the parent scope and has exactly the expected methods ----------

struct E2Mod {
    src: String,
    expected: Vec<(String, String)>, // (name, qualifiers)
    not_methods: Vec<String>,
    summary: String,
}

fn e2_module(t: &mut Tape) -> E2Mod {
    const QUALS: [&str; 9] = ["", "async ", "unsafe ", "extern \"C\" ", "async unsafe ", "unsafe extern \"C\" ", "const ", "const unsafe ", "const unsafe extern \"C\" "];
    const VIS: [&str; 3] = ["pub ", "pub(crate) ", "pub(super) "];
    let n = t.range(1, 7);
    let mut items = vec![];
    let mut expected = vec![];
    let mut not_methods = vec![];
    // items that are exactly one item (they can be handed through `macro_rules!` as an `$i:item` fragment)
    let mut single: Vec<usize> = vec![];
    for i in 0..n {
        match t.weighted(&[5, 2, 5]) {
            0 => {
                let q = QUALS[t.weighted(&[5, 2, 1, 1, 1, 1, 1, 1, 1])];
                let v = VIS[t.weighted(&[4, 2, 1])];
                items.push(format!("    {v}{q}fn vis{i}(_deps: &impl ::core::any::Any) -> u32 {{ {} }}", 100 + i));
                expected.push((format!("vis{i}"), q.to_string()));
            }
            1 => {
                single.push(items.len());
                items.push(format!("    fn priv{i}(_deps: &impl ::core::any::Any) -> u32 {{ {} }}", 200 + i));
                not_methods.push(format!("priv{i}"));
            }
            _ => {
                let decoys = [
                    format!("    pub struct H{i} {{ pub f: fn() -> u32 }}"),
                    format!("    pub struct I{i}; impl I{i} {{ pub fn inherent{i}(_deps: &impl ::core::any::Any) -> u32 {{ 1 }} }}"),
                    format!("    pub mod inner{i} {{ pub fn nested{i}(_deps: &impl ::core::any::Any) -> u32 {{ 1 }} }}"),
                    format!("    extern \"C\" {{ pub fn c_fn{i}(x: i32) -> i32; }}"),
                    format!("    macro_rules! mk{i} {{ () => {{ pub fn from_macro{i}(_deps: &impl ::core::any::Any) -> u32 {{ 1 }} }}; }}\n    mk{i}!();"),
                    format!("    const _: () = {{ pub fn in_const{i}(_deps: &impl ::core::any::Any) -> u32 {{ 1 }} }};"),
                    format!("    pub static P{i}: fn() -> u32 = {{ fn f() -> u32 {{ 7 }} f }};"),
                    format!("    pub type Alias{i} = fn(u32) -> u32;"),
                    format!("    pub trait Other{i} {{ fn required{i}(&self); fn provided{i}(&self) {{}} }}"),
                ];
                let k = t.choose(decoys.len());
                for nm in ["inherent", "nested", "c_fn", "from_macro", "in_const", "required", "provided"] {
                    if decoys[k].contains(&format!("fn {nm}{i}")) {
                        not_methods.push(format!("{nm}{i}"));
                    }
                }
                if matches!(k, 0 | 2 | 3 | 5 | 6 | 7 | 8) {
                    single.push(items.len());
                }
                items.push(decoys[k].clone());
            }
        }
    }
    // (the relative ones are relative to where the attribute is written: the parent of the module)
    let tvis = ["", "pub ", "pub(crate) ", "", "pub ", "pub(self) ", "pub(super) ", "pub(in super) ", "pub(in crate) ", "pub(in self) "][t.choose(10)];
    let inner = if t.chance(1, 5) { "    //! inner doc\n    #![allow(unused)]\n" } else { "" };
    let mod_name = *t.pick(&["m", "m", "r#match", "r#type", "r#plain", "Mod9"]);
    let mod_vis = ["", "pub ", "pub(crate) "][t.choose(3)];
    // the module may come out of a `macro_rules!` expansion that receives one or two of its non-method items as `$i:item`
    // fragments (they reach the attribute macro as groups with invisible delimiters)
    let interpolate = t.chance(1, 4);
    let src = if interpolate {
        let picked: Vec<usize> = single.iter().copied().take(2).collect();
        let mut body = items.clone();
        let mut args = vec![];
        for (k, at) in picked.iter().enumerate() {
            args.push(items[*at].trim().to_string());
            body[*at] = format!("    $i{k}");
        }
        let mut params: Vec<String> = (0..picked.len()).map(|k| format!("$i{k}:item")).collect();
        // the bodies of one private and one visible fn as `$b:block` fragments
        let mut nb = 0;
        for want_private in [true, false] {
            if let Some(at) = (0..body.len()).find(|at| {
                let it = body[*at].trim_start();
                !picked.contains(at) && it.ends_with('}') && if want_private { it.starts_with("fn priv") } else { it.contains("fn vis") }
            }) {
                if t.flip() {
                    let open = body[at].rfind('{').unwrap();
                    args.push(body[at][open..].to_string());
                    body[at] = format!("{}$b{nb}", &body[at][..open]);
                    params.push(format!("$b{nb}:block"));
                    nb += 1;
                }
            }
        }
        format!(
            "macro_rules! __mk_mod {{ ({}) => {{\n#[::entrait::entrait({tvis}TheTrait)]\n{mod_vis}mod {mod_name} {{\n{inner}{}\n}}\n}} }}\n__mk_mod!({});\n",
            params.join(", "),
            body.join("\n"),
            args.join(", ")
        )
    } else {
        format!("#[::entrait::entrait({tvis}TheTrait)]\n{mod_vis}mod {mod_name} {{\n{inner}{}\n}}\n", items.join("\n"))
    };
    let summary = format!("#[entrait({tvis}TheTrait)] mod {mod_name} {{ {}{} }}{}", inner.trim().replace('\n', " "), items.iter().map(|s| s.trim().to_string()).collect::<Vec<_>>().join(" "), if interpolate { " [module from macro_rules!, items handed in as $i:item fragments, some fn bodies as $b:block fragments]" } else { "" });
    E2Mod { src, expected, not_methods, summary }
}

pub fn e2_leg(ctx: &mut Ctx) -> bool {
    use crate::e2::{Batch, Opts};
    let n = ctx.n(200, 3000) as usize;
    let tapes = crate::drive::gen_tapes(ctx.seed, 800, n, 64);
    let mods: Vec<E2Mod> = tapes.iter().map(|tp| e2_module(&mut Tape::new(tp))).collect();
    let mut batch = Batch::new("c08-e2", Opts { feature_unimock: false, members: 16, ..Default::default() });
    // positive programs: the parent scope names the trait by its short name and calls every expected method;
    // negative programs (every 4th module; all of them in the thorough tier): one non-method must not be callable through the trait
    let mut negatives: Vec<(String, usize, String)> = vec![];
    let mut positives: Vec<String> = vec![];
    for (i, m) in mods.iter().enumerate() {
        let mut src = String::from("#![allow(warnings)]\nuse crate::rt;\npub struct App;\n");
        src.push_str(&m.src);
        src.push_str("pub fn run() -> Vec<String> {\n    let mut fails = vec![];\n    let app = ::entrait::Impl::new(App);\n    fn names_the_trait<T: TheTrait>(_: &T) {}\n    names_the_trait(&app);\n");
        for (k, (name, q)) in m.expected.iter().enumerate() {
            let call = format!("<::entrait::Impl<App> as TheTrait>::{name}(&app)");
            let call = if q.contains("unsafe") { format!("unsafe {{ {call} }}") } else { call };
            let call = if q.contains("async") { format!("rt::block_on({call})") } else { call };
            let idx: usize = name[3..].parse().unwrap_or(0);
            let _ = k;
            src.push_str(&format!("    rt::expect_eq(&mut fails, \"{name}\", &{call}, &{}u32);\n", 100 + idx));
        }
        src.push_str("    fails\n}\n");
        batch.add(&format!("c{i:05}"), src.clone());
        positives.push(src.clone());
        if (!ctx.quick() || i % 4 == 0) && !m.not_methods.is_empty() {
            let nm = &m.not_methods[i % m.not_methods.len()];
            let neg = src.replace("    fails\n}\n", &format!("    let _ = <::entrait::Impl<App> as TheTrait>::{nm};\n    fails\n}}\n"));
            batch.add(&format!("n{i:05}"), neg.clone());
            negatives.push((format!("n{i:05}"), i, neg));
        }
    }
    let out = batch.build_and_run();
    batch.cleanup();
    super::common::crosscheck_records(ctx, &out.records);
    for (i, m) in mods.iter().enumerate() {
        let id = format!("c{i:05}");
        ctx.count_eval();
        if let Some(d) = out.compile_failed.get(&id) {
            ctx.violation(
                &format!(
                    "the parent scope cannot import the trait / call every non-private fn as a method: {} -- {}",
                    d.first().map(|x| format!("{} {}", x.code, x.message)).unwrap_or_default(),
                    m.summary
                ),
                &json!({"engine": "E2", "summary": m.summary, "expect": "ok", "src": positives[i]}),
            );
            return false;
        }
        if let Some((status, msg)) = out.ran.get(&id) {
            if status != "ok" {
                ctx.violation(&format!("a trait method does not reach its module fn: {msg} -- {}", m.summary), &json!({"engine": "E2", "summary": m.summary, "expect": "ok", "src": positives[i]}));
                return false;
            }
        }
        ctx.class("e2:parent_scope_client");
    }
    for (id, i, neg_src) in &negatives {
        ctx.count_eval();
        if !out.compile_failed.contains_key(id) {
            ctx.violation(
                &format!("a private / nested / macro-generated fn is callable as a trait method -- {}", mods[*i].summary),
                &json!({"engine": "E2", "summary": mods[*i].summary, "expect": "rejected", "src": neg_src}),
            );
            return false;
        }
        ctx.class("e2:non_method_rejected");
    }
    true
}
