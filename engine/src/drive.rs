//! proptest drivers over choice tapes.

use crate::ev::Ctx;
use proptest::strategy::{Strategy, ValueTree};
use proptest::test_runner::{Config, RngAlgorithm, TestCaseError, TestError, TestRng, TestRunner};
use serde_json::Value;
use std::cell::RefCell;

pub struct Fail {
    pub what: String,
    pub replay: Value,
}

impl Fail {
    pub fn new(what: impl Into<String>, replay: Value) -> Self {
        Self { what: what.into(), replay }
    }
}

pub fn runner(seed: u64, stream: u64, cases: u32) -> TestRunner {
    let mut bytes = [0u8; 32];
    bytes[..8].copy_from_slice(&seed.to_le_bytes());
    bytes[8..16].copy_from_slice(&stream.to_le_bytes());
    bytes[16..24].copy_from_slice(b"entrait!");
    let config = Config {
        cases,
        failure_persistence: None,
        max_shrink_iters: 20_000,
        max_global_rejects: 0,
        ..Config::default()
    };
    TestRunner::new_with_rng(config, TestRng::from_seed(RngAlgorithm::ChaCha, &bytes))
}

pub fn tape_strategy(len: usize) -> impl Strategy<Value = Vec<u32>> {
    proptest::collection::vec(proptest::num::u32::ANY, len)
}

/// Run `cases` generated tapes through `f`. The first failure is shrunk by proptest and reported
/// as a violation; returns false if a violation was reported.
pub fn run_tapes(
    ctx: &mut Ctx,
    stream: u64,
    cases: u32,
    tape_len: usize,
    f: impl Fn(&mut Ctx, &[u32]) -> Result<(), Fail>,
) -> bool {
    let mut r = runner(ctx.seed, stream, cases);
    let cell = RefCell::new(ctx);
    let res = r.run(&tape_strategy(tape_len), |tape| {
        let mut guard = cell.borrow_mut();
        let ctx: &mut Ctx = &mut guard;
        match f(ctx, &tape) {
            Ok(()) => Ok(()),
            Err(fail) => {
                ctx.frozen = true;
                Err(TestCaseError::fail(fail.what))
            }
        }
    });
    let ctx = cell.into_inner();
    match res {
        Ok(()) => true,
        Err(TestError::Fail(_, tape)) => {
            // re-run on the shrunk tape to obtain the replay payload
            match f(ctx, &tape) {
                Err(fail) => {
                    ctx.frozen = false;
                    ctx.violation(&fail.what, &fail.replay);
                }
                Ok(()) => {
                    ctx.frozen = false;
                    crate::ev::inconclusive("shrunk failure did not reproduce (non-deterministic oracle?)");
                }
            }
            false
        }
        Err(TestError::Abort(reason)) => crate::ev::inconclusive(&format!("proptest aborted: {reason}")),
    }
}

/// Generate `n` tapes (for E2 batches) deterministically from (seed, stream).
pub fn gen_tapes(seed: u64, stream: u64, n: usize, tape_len: usize) -> Vec<Vec<u32>> {
    let mut r = runner(seed, stream, n as u32);
    let s = tape_strategy(tape_len);
    (0..n).map(|_| s.new_tree(&mut r).expect("tape tree").current()).collect()
}
