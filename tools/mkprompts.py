#!/usr/bin/env python3
"""mkprompts.py <seeds-dir> <classes.json>: write <seeds-dir>/<ID>.prompt for every property in classes.json
(one scratch worktree <seeds-dir>/<ID> per sub-agent; the prompt carries the property's text and nothing from /verif)."""
import json, sys
root, classes = sys.argv[1], json.load(open(sys.argv[2]))
props = {}
for l in open('/verif/properties.jsonl'):
    p = json.loads(l); props[p['id']] = p
for pid, cls in classes.items():
    p = props[pid]
    txt = f"""You are helping to evaluate a verification framework by producing ONE realistic, subtle regression in a Rust proc-macro crate.

Repository: a git worktree of `audunhalland/entrait` (a proc-macro attribute `#[entrait]` that generates traits and delegating impls from functions, modules, traits and impl blocks; read README.md, src/lib.rs docs and entrait_macros/src/**) at:

    {root}/{pid}

Work ONLY inside that directory. Do NOT read or touch /repo, /verif or any other worktree. There is no network; build with `cargo ... --offline` (a Cargo.lock is already there).

The semantic property you must break:

{pid} — {p['title']}

Statement: {p['statement']}

Quantified over: {p['quantifier']['text']}

For this exercise the breakage should show on this class of inputs: {cls}. (Pick one concrete corner of that class; ordinary inputs outside it must keep working.)

Your task:
0. FIRST, before changing anything: spend a good part of your effort trying inputs of the class above on the UNCHANGED tree (small programs under `tests/` or a tiny crate under `tests/seed_demo_crate/` with its own empty `[workspace]` table, `cargo expand` is not available - read compile errors, or print tokens in a test). Note every input of that class that the unchanged crate handles wrongly with respect to the property (does not compile, wrong behaviour, panic, lost tokens ...), with the minimal program and the error. These observations are as valuable as the seeded change.
1. Make a small source change to the crate (usually under `entrait_macros/src/`, or `src/lib.rs`) that BREAKS this property, while
   - the whole workspace still compiles, and
   - the existing test suite still passes unchanged: `cd {root}/{pid} && cargo test --workspace --no-fail-fast --offline` (all tests green; do not edit, delete or ignore existing tests).
2. The breakage must need something specific to manifest, NOT something ordinary use (or the existing tests) would expose at once. Make it look like a plausible refactoring slip or an "optimisation", not sabotage with magic strings. Check, on the UNCHANGED tree, that the input you have in mind really works there. List (for yourself) several candidate slips in different files or functions and pick the one you judge least likely to be noticed by someone who tests the property with generated inputs of the obvious kinds.
3. Write a demonstration that fails WITH your change and passes WITHOUT it: preferably a new integration test file `tests/seed_demo.rs` (run with `cargo test --offline --test seed_demo`; add `--features unimock` if it needs that feature and say so), or, if the breakage is a compile error or needs several processes, a shell script `seed_demo.sh` in the worktree root (exit 0 = fine, non-zero = broken) that may build a tiny crate under `tests/seed_demo_crate/` (give that crate its own empty `[workspace]` table). Verify both directions yourself. Do NOT use `git stash` (it is shared between worktrees). To reach the unchanged tree: `git diff > {root}/{pid}.own.patch && git apply -R {root}/{pid}.own.patch`, run the demo, then `git apply {root}/{pid}.own.patch` (untracked new files such as your demo stay in place).
4. Leave the worktree with your change and demonstration in place (uncommitted). Do not commit. Remove any other scratch files / crates you created for step 0 (or keep them under `tests/explore/`, not compiled by `cargo test`).

Finally reply with: (a) a 3-6 line description of the change and why it breaks the property, (b) exactly what is needed for it to manifest, (c) the commands you ran and their outcomes (test suite with the change; demo with and without the change), (d) the list of files you changed/added, (e) everything from step 0: inputs of the class above that did NOT work on the unchanged tree (minimal program, error, and which generated code is at fault if you can tell)."""
    open(f'{root}/{pid}.prompt', 'w').write(txt)
print('ok', len(classes))
