#!/bin/bash
# tools/coverage.sh [IDs...]: line coverage of /repo/entrait_macros/src reached by the generators.
# Builds the engine with -C instrument-coverage (nightly, own target dir), runs the quick tier of the named checks (default: all),
# merges the profiles and prints per-file coverage plus the uncovered lines (work/cov/uncovered.txt). Analysis aid, not a check:
# every input of the E2 checks is re-expanded in-process by the E1<->E2 cross-check, so the in-process port sees all of them.
set -u
cd "$(dirname "$0")/.."
ROOT=$PWD
BIN=/root/.rustup/toolchains/nightly-x86_64-unknown-linux-gnu/lib/rustlib/x86_64-unknown-linux-gnu/bin
rm -rf work/cov; mkdir -p work/cov
(cd engine && RUSTFLAGS="-C instrument-coverage" CARGO_NET_OFFLINE=true cargo +nightly build --release --offline --target-dir "$ROOT/work/cov-target" >/dev/null 2>&1) || { echo "coverage build failed"; exit 2; }
IDS=${@:-C01 C02 C03 C04 C05 C06 C07 C08 C09 C10 C11 C12 C13 C14 C15 C16 C17 C18 C19 C20}
for id in $IDS; do
  VERIF_ROOT=$ROOT VERIF_EVIDENCE_DIR=$ROOT/work/cov/evidence LLVM_PROFILE_FILE="$ROOT/work/cov/$id-%p-%m.profraw" "$ROOT/work/cov-target/release/engine" $id --tier quick 2>&1 | tail -1 | cut -c1-120
done
$BIN/llvm-profdata merge -sparse work/cov/*.profraw -o work/cov/all.profdata
$BIN/llvm-cov report "$ROOT/work/cov-target/release/engine" -instr-profile=work/cov/all.profdata $(ls /repo/entrait_macros/src/*.rs /repo/entrait_macros/src/*/*.rs) 2>/dev/null | tee work/cov/report.txt | tail -40
$BIN/llvm-cov show "$ROOT/work/cov-target/release/engine" -instr-profile=work/cov/all.profdata $(ls /repo/entrait_macros/src/*.rs /repo/entrait_macros/src/*/*.rs) --show-line-counts-or-regions 2>/dev/null > work/cov/show.txt
grep -nE "^ +[0-9]+\| +0\|" work/cov/show.txt > work/cov/uncovered.txt; wc -l work/cov/uncovered.txt
