//! E1: the working-tree macro, run in-process (see port/build.rs).

use crate::tok::{self, Tok};
use proc_macro2::TokenStream;
use std::panic::{catch_unwind, AssertUnwindSafe};
use std::sync::Once;

pub const MACROS: [&str; 4] = ["entrait", "entrait_export", "entrait_unimock", "entrait_export_unimock"];

static HOOK: Once = Once::new();
thread_local! {
    static LAST_PANIC: std::cell::RefCell<String> = const { std::cell::RefCell::new(String::new()) };
    static QUIET: std::cell::Cell<bool> = const { std::cell::Cell::new(false) };
}

fn install_hook() {
    HOOK.call_once(|| {
        let prev = std::panic::take_hook();
        std::panic::set_hook(Box::new(move |info| {
            if QUIET.with(|q| q.get()) {
                let msg = if let Some(s) = info.payload().downcast_ref::<&str>() {
                    s.to_string()
                } else if let Some(s) = info.payload().downcast_ref::<String>() {
                    s.clone()
                } else {
                    "<non-string panic>".to_string()
                };
                let loc = info.location().map(|l| format!(" at {}:{}", l.file(), l.line())).unwrap_or_default();
                LAST_PANIC.with(|p| *p.borrow_mut() = format!("{msg}{loc}"));
            } else {
                prev(info);
            }
        }));
    });
}

#[derive(Debug, Clone)]
pub enum Expansion {
    /// tokens produced (may contain compile_error!)
    Tokens(TokenStream),
    /// the macro panicked
    Panic(String),
}

pub fn expand_ts(macro_name: &str, attr: TokenStream, item: TokenStream) -> Expansion {
    install_hook();
    QUIET.with(|q| q.set(true));
    let r = catch_unwind(AssertUnwindSafe(|| match macro_name {
        "entrait" => entrait_port::entrait(attr, item),
        "entrait_export" => entrait_port::entrait_export(attr, item),
        "entrait_unimock" => entrait_port::entrait_unimock(attr, item),
        "entrait_export_unimock" => entrait_port::entrait_export_unimock(attr, item),
        other => panic!("harness: unknown macro {other}"),
    }));
    QUIET.with(|q| q.set(false));
    match r {
        Ok(ts) => Expansion::Tokens(ts),
        Err(_) => Expansion::Panic(LAST_PANIC.with(|p| p.borrow().clone())),
    }
}

/// Expand from source text. `Err` = the *harness* produced something the lexer rejects.
pub fn expand_src(macro_name: &str, attr: &str, item: &str) -> Result<Expansion, String> {
    let a = tok::parse_src(attr).map_err(|e| format!("attr {e}: {attr}"))?;
    let i = tok::parse_src(item).map_err(|e| format!("item {e}: {item}"))?;
    Ok(expand_ts(macro_name, a, i))
}

/// Outcome classes used by most E1 oracles.
pub enum Outcome {
    Accepted(Vec<Tok>, TokenStream),
    Rejected(String),
    Panic(String),
}

pub fn outcome(macro_name: &str, attr: &str, item: &str) -> Result<Outcome, String> {
    Ok(match expand_src(macro_name, attr, item)? {
        Expansion::Panic(m) => Outcome::Panic(m),
        Expansion::Tokens(ts) => {
            let t = tok::toks(ts.clone());
            match tok::find_compile_error(&t) {
                Some(msg) => Outcome::Rejected(msg),
                None => Outcome::Accepted(t, ts),
            }
        }
    })
}
