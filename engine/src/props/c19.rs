//! C19 — generated code is self-contained: no imports, no std, no name capture (E2 metamorphic).
//!
//! Every case holds the same entrait usage twice: in a benign module, and in a hostile module that additionally defines a
//! generated subset of items shadowing the names the macro refers to, and/or names the generated trait like a marker trait.
//! User code in both uses absolute paths only, so anything that breaks is the macro's reference. The hostile twin must
//! compile and compute the same values as the benign one. A separate `#![no_std]` library crate holds every unit.

use crate::e2::{Batch, Opts};
use crate::ev::Ctx;
use crate::tape::Tape;
use serde_json::{json, Value};

/// names the macro refers to (or plausibly could): each defined as a local item of some kind
const SHADOWS: [(&str, &str); 29] = [
    // a type named like a const parameter of an entraited fn: generic argument lists read a bare `N` as a type
    ("N", "pub struct N;"),
    // lower-case items: a parameter *name* of a trait method declaration is a pattern once the method has a body
    ("ident", "pub const ident: u64 = 0;"),
    ("key", "pub struct key;"),
    ("Impl", "pub struct Impl;"),
    ("Sync", "pub struct Sync;"),
    ("Send", "pub struct Send;"),
    ("Sync", "pub trait Sync {}"),
    ("Send", "pub trait Send {}"),
    ("Future", "pub trait Future {}"),
    ("AsRef", "pub struct AsRef;"),
    ("Borrow", "pub trait Borrow {}"),
    ("Box", "pub struct Box;"),
    ("Option", "pub enum Option {}"),
    ("core", "pub mod core {}"),
    ("entrait", "pub mod entrait {}"),
    ("std", "pub mod std {}"),
    ("Sized", "pub trait Sized {}"),
    ("Output", "pub struct Output;"),
    ("Target", "pub struct Target;"),
    ("T", "pub struct T;"),
    ("convert", "pub mod convert {}"),
    ("marker", "pub mod marker {}"),
    ("future", "pub mod future {}"),
    ("unimock", "pub mod unimock {}"),
    ("mockall", "pub mod mockall {}"),
    // imports and blanket traits that add *methods* to every type: generated method-call syntax must not pick them up
    ("use Borrow", "use ::core::borrow::Borrow as _;"),
    ("Borrow", "use ::core::borrow::Borrow;"),
    ("use BorrowMut/Deref", "use ::core::borrow::BorrowMut as _; use ::core::ops::Deref as _;"),
    ("blanket trait with as_ref/borrow/into_inner", "pub trait Hijack { fn as_ref(&self) -> u8 { 0 } fn borrow(&self) -> u8 { 0 } fn into_inner(self) -> u8 where Self: ::core::marker::Sized { 0 } }\n    impl<X: ?::core::marker::Sized> Hijack for X {}"),
];

const HOSTILE_TRAIT_NAMES: [&str; 6] = ["Send", "Sync", "Future", "Impl", "AsRef", "Sized"];

/// (unit name, source with `@T@` for the generated trait's name, expression evaluating it to a u64)
fn units() -> Vec<(&'static str, &'static str, &'static str)> {
    vec![
        (
            "fn_generic_deps",
            "#[::entrait::entrait(pub @T@)]\npub fn foo<D: Bar>(deps: &D, x: u64) -> u64 { deps.bar(x) + 1 }\n#[::entrait::entrait(pub Bar)]\npub fn bar(_deps: &impl ::core::any::Any, x: u64) -> u64 { x * 2 }\n",
            "{ let app = ::entrait::Impl::new(App); <::entrait::Impl<App> as @T@>::foo(&app, 5) }",
        ),
        (
            "fn_async",
            "#[::entrait::entrait(pub @T@)]\npub async fn afoo(_deps: &impl ::core::any::Any, x: u64) -> u64 { crate::rt::yield_once().await; x + 3 }\n",
            "{ let app = ::entrait::Impl::new(App); crate::rt::block_on(<::entrait::Impl<App> as @T@>::afoo(&app, 5)) }",
        ),
        (
            "fn_by_value_deps",
            "#[::entrait::entrait(pub @T@)]\npub fn vfoo(_deps: impl ::core::any::Any, x: u64) -> u64 { x + 4 }\n",
            "{ let app = ::entrait::Impl::new(App); <::entrait::Impl<App> as @T@>::vfoo(app, 5) }",
        ),
        (
            "fn_no_deps_maybe_send",
            "#[::entrait::entrait(pub @T@, no_deps, ?Send)]\npub async fn nfoo(x: u64) -> u64 { x + 5 }\n",
            "{ let app = ::entrait::Impl::new(App); crate::rt::block_on(<::entrait::Impl<App> as @T@>::nfoo(&app, 5)) }",
        ),
        // the dependency's type parameter is mentioned again: the method gets a `Self: Sized` bound the user never wrote
        (
            "fn_deps_param_mentioned_again",
            "#[::entrait::entrait(pub @T@)]\npub fn sfoo<D: ::core::any::Any>(_deps: &D, _other: &D, x: u64) -> u64 { x + 23 }\n",
            "{ let app = ::entrait::Impl::new(App); <::entrait::Impl<App> as @T@>::sfoo(&app, &app, 5) }",
        ),
        (
            "fn_concrete_deps",
            "pub struct Conf(pub u64);\n#[::entrait::entrait(pub @T@)]\npub fn cfoo(deps: &Conf, x: u64) -> u64 { deps.0 + x }\n",
            "{ let c = ::entrait::Impl::new(Conf(9)); <::entrait::Impl<Conf> as @T@>::cfoo(&c, 5) }",
        ),
        (
            "module",
            "#[::entrait::entrait(pub @T@)]\npub mod m {\n    pub fn mfoo(_deps: &impl ::core::any::Any, x: u64) -> u64 { x + 6 }\n    pub async fn mbar(_deps: &impl ::core::any::Any, x: u64) -> u64 { x + 7 }\n}\n",
            "{ let app = ::entrait::Impl::new(App); <::entrait::Impl<App> as @T@>::mfoo(&app, 5) + crate::rt::block_on(<::entrait::Impl<App> as @T@>::mbar(&app, 5)) }",
        ),
        (
            "trait_static_leaf",
            "#[::entrait::entrait]\npub trait @T@ { fn leaf(&self, x: u64) -> u64; async fn aleaf(&self, x: u64) -> u64; }\nimpl @T@ for App { fn leaf(&self, x: u64) -> u64 { x + 8 } async fn aleaf(&self, x: u64) -> u64 { x + 9 } }\n",
            "{ let app = ::entrait::Impl::new(App); <::entrait::Impl<App> as @T@>::leaf(&app, 5) + crate::rt::block_on(<::entrait::Impl<App> as @T@>::aleaf(&app, 5)) }",
        ),
        // parameter names of the declaration that are items in the hostile scope (the user's own impl uses other names)
        (
            "trait_parameter_names",
            "#[::entrait::entrait]\npub trait @T@ { fn pget(&self, ident: u64) -> u64; fn plook(&self, key: u64, ident: u64) -> u64; fn pmax(key: u64, ident: u64) -> u64; }\nimpl @T@ for App { fn pget(&self, i: u64) -> u64 { i + 24 } fn plook(&self, k: u64, i: u64) -> u64 { k * 2 + i } fn pmax(k: u64, i: u64) -> u64 { k * 3 + i } }\n",
            "{ let app = ::entrait::Impl::new(App); <::entrait::Impl<App> as @T@>::pget(&app, 5) + <::entrait::Impl<App> as @T@>::plook(&app, 5, 1) + <::entrait::Impl<App> as @T@>::pmax(2, 1) }",
        ),
        (
            "trait_dyn_ref",
            "#[::entrait::entrait(delegate_by = ref)]\npub trait @T@: 'static { fn dleaf(&self, x: u64) -> u64; }\npub struct DRec;\nimpl @T@ for DRec { fn dleaf(&self, x: u64) -> u64 { x + 10 } }\nimpl ::core::convert::AsRef<dyn @T@> for App { fn as_ref(&self) -> &(dyn @T@ + 'static) { &DRec } }\n",
            "{ let app = ::entrait::Impl::new(App); <::entrait::Impl<App> as @T@>::dleaf(&app, 5) }",
        ),
        (
            "trait_dyn_borrow",
            "#[::entrait::entrait(delegate_by = Borrow)]\npub trait @T@: 'static { fn bleaf(&self, x: u64) -> u64; }\npub struct BRec;\nimpl @T@ for BRec { fn bleaf(&self, x: u64) -> u64 { x + 11 } }\nimpl ::core::borrow::Borrow<dyn @T@> for App { fn borrow(&self) -> &(dyn @T@ + 'static) { &BRec } }\n",
            "{ let app = ::entrait::Impl::new(App); <::entrait::Impl<App> as @T@>::bleaf(&app, 5) }",
        ),
        (
            "trait_dyn_async_trait",
            "#[::entrait::entrait(delegate_by = ref)]\n#[::async_trait::async_trait]\npub trait @T@: ::core::marker::Sync + 'static { async fn adleaf(&self, x: u64) -> u64; }\npub struct ADRec;\n#[::async_trait::async_trait]\nimpl @T@ for ADRec { async fn adleaf(&self, x: u64) -> u64 { x + 12 } }\nimpl ::core::convert::AsRef<dyn @T@> for App { fn as_ref(&self) -> &(dyn @T@ + 'static) { &ADRec } }\n",
            "{ let app = ::entrait::Impl::new(App); crate::rt::block_on(<::entrait::Impl<App> as @T@>::adleaf(&app, 5)) }",
        ),
        (
            "inversion_static",
            "#[::entrait::entrait(RepoImpl, delegate_by = DelegateRepo)]\npub trait @T@ { fn get(&self, x: u64) -> u64; async fn aget(&self, x: u64) -> u64; }\npub struct MyRepo;\n#[::entrait::entrait]\nimpl RepoImpl for MyRepo {\n    pub fn get(_deps: &impl ::core::any::Any, x: u64) -> u64 { x + 13 }\n    pub async fn aget(_deps: &impl ::core::any::Any, x: u64) -> u64 { x + 14 }\n}\nimpl DelegateRepo<App> for App { type Target = MyRepo; }\n",
            "{ let app = ::entrait::Impl::new(App); <::entrait::Impl<App> as @T@>::get(&app, 5) + crate::rt::block_on(<::entrait::Impl<App> as @T@>::aget(&app, 5)) }",
        ),
        (
            "inversion_dyn",
            "#[::entrait::entrait(DRepoImpl, delegate_by = ref)]\npub trait @T@ { fn dget(&self, x: u64) -> u64; }\npub struct MyDRepo;\n#[::entrait::entrait(ref)]\nimpl DRepoImpl for MyDRepo {\n    pub fn dget(_deps: &impl ::core::any::Any, x: u64) -> u64 { x + 15 }\n}\nimpl ::core::convert::AsRef<dyn DRepoImpl<App>> for App { fn as_ref(&self) -> &(dyn DRepoImpl<App> + 'static) { &MyDRepo } }\n",
            "{ let app = ::entrait::Impl::new(App); <::entrait::Impl<App> as @T@>::dget(&app, 5) }",
        ),
        // an associated type named like one of a supertrait (`Deref::Target`): the forwarded type has to say whose it means
        (
            "trait_assoc_type_named_like_a_supertraits",
            "#[::entrait::entrait]\npub trait @T@: ::core::ops::Deref { type Target; fn cfg_get(&self) -> u64; }\nimpl ::core::ops::Deref for App { type Target = u64; fn deref(&self) -> &u64 { &7 } }\nimpl @T@ for App { type Target = u8; fn cfg_get(&self) -> u64 { 9 } }\n",
            "{ let app = ::entrait::Impl::new(App); let _: ::core::option::Option<<::entrait::Impl<App> as @T@>::Target> = ::core::option::Option::Some(1u8); <::entrait::Impl<App> as @T@>::cfg_get(&app) }",
        ),
        (
            "fn_const_generic",
            "#[::entrait::entrait(pub @T@)]\npub fn cgen<const N: usize>(_deps: &impl ::core::any::Any, x: [u64; N]) -> u64 { x[0] + N as u64 }\n",
            "{ let app = ::entrait::Impl::new(App); <::entrait::Impl<App> as @T@<2>>::cgen(&app, [5u64; 2]) }",
        ),
        // the delegation-target trait is called `T` - a name the generated selector trait must not use for a parameter of its own
        (
            "inversion_target_named_t",
            "#[::entrait::entrait(T, delegate_by = DelegateTNamed)]\npub trait @T@ { fn tget(&self, x: u64) -> u64; }\npub struct MyTNamed;\n#[::entrait::entrait]\nimpl T for MyTNamed {\n    pub fn tget(_deps: &impl ::core::any::Any, x: u64) -> u64 { x + 31 }\n}\nimpl DelegateTNamed<App> for App { type Target = MyTNamed; }\n",
            "{ let app = ::entrait::Impl::new(App); <::entrait::Impl<App> as @T@>::tget(&app, 5) }",
        ),
        // the (possibly hostile-named) entraited leaf trait - implemented for `Impl<T>` only where `T` implements it - is the *dependency bound* of other entraited items: the macro copies the
        // user's bound, and must not mistake it for the std item of the same name
        (
            "fn_dep_bound_is_t",
            "#[::entrait::entrait]\npub trait @T@ { fn dbar(&self, x: u64) -> u64; }\nimpl @T@ for App { fn dbar(&self, x: u64) -> u64 { x * 3 } }\n#[::entrait::entrait(pub Outer)]\npub fn dfoo(deps: &impl @T@, x: u64) -> u64 { <_ as @T@>::dbar(deps, x) + 17 }\n#[::entrait::entrait(pub Outer2)]\npub async fn dfoo2<D: @T@ + ::core::marker::Sync>(deps: &D, x: u64) -> u64 { <D as @T@>::dbar(deps, x) + 18 }\n",
            "{ let app = ::entrait::Impl::new(App); <::entrait::Impl<App> as Outer>::dfoo(&app, 5) + crate::rt::block_on(<::entrait::Impl<App> as Outer2>::dfoo2(&app, 5)) }",
        ),
        (
            "mod_dep_bound_is_t",
            "#[::entrait::entrait]\npub trait @T@ { fn mdbar(&self, x: u64) -> u64; }\nimpl @T@ for App { fn mdbar(&self, x: u64) -> u64 { x * 5 } }\n#[::entrait::entrait(pub OuterM)]\npub mod dm {\n    pub fn mdfoo(deps: &impl super::@T@, x: u64) -> u64 { <_ as super::@T@>::mdbar(deps, x) + 19 }\n    pub fn mdfoo2<D>(deps: &D, x: u64) -> u64 where D: super::@T@ { <D as super::@T@>::mdbar(deps, x) + 20 }\n}\n",
            "{ let app = ::entrait::Impl::new(App); <::entrait::Impl<App> as OuterM>::mdfoo(&app, 5) + <::entrait::Impl<App> as OuterM>::mdfoo2(&app, 5) }",
        ),
        (
            "impl_block_dep_bound_is_t",
            "#[::entrait::entrait]\npub trait @T@ { fn idbar(&self, x: u64) -> u64; }\nimpl @T@ for App { fn idbar(&self, x: u64) -> u64 { x * 7 } }\n#[::entrait::entrait(IRepoImpl, delegate_by = DelegateIRepo)]\npub trait IRepo { fn iget(&self, x: u64) -> u64; }\npub struct MyIRepo;\n#[::entrait::entrait]\nimpl IRepoImpl for MyIRepo {\n    pub fn iget(deps: &impl @T@, x: u64) -> u64 { <_ as @T@>::idbar(deps, x) + 21 }\n}\nimpl DelegateIRepo<App> for App { type Target = MyIRepo; }\n",
            "{ let app = ::entrait::Impl::new(App); <::entrait::Impl<App> as IRepo>::iget(&app, 5) }",
        ),
        (
            "inversion_dyn_borrow",
            "#[::entrait::entrait(BRepoImpl, delegate_by = Borrow)]\npub trait @T@ { fn bdget(&self, x: u64) -> u64; }\npub struct MyBRepo;\n#[::entrait::entrait(ref)]\nimpl BRepoImpl for MyBRepo {\n    pub fn bdget(_deps: &impl ::core::any::Any, x: u64) -> u64 { x + 22 }\n}\nimpl ::core::borrow::Borrow<dyn BRepoImpl<App>> for App { fn borrow(&self) -> &(dyn BRepoImpl<App> + 'static) { &MyBRepo } }\n",
            "{ let app = ::entrait::Impl::new(App); <::entrait::Impl<App> as @T@>::bdget(&app, 5) }",
        ),
        (
            "inversion_dyn_async_trait",
            "#[::entrait::entrait(ADRepoImpl, delegate_by = ref)]\n#[::async_trait::async_trait]\npub trait @T@ { async fn adget(&self, x: u64) -> u64; }\npub struct MyADRepo;\n#[::entrait::entrait(ref)]\n#[::async_trait::async_trait]\nimpl ADRepoImpl for MyADRepo {\n    pub async fn adget(_deps: &impl ::core::any::Any, x: u64) -> u64 { x + 16 }\n}\nimpl ::core::convert::AsRef<dyn ADRepoImpl<App> + ::core::marker::Sync> for App { fn as_ref(&self) -> &(dyn ADRepoImpl<App> + ::core::marker::Sync + 'static) { &MyADRepo } }\n",
            "{ let app = ::entrait::Impl::new(App); crate::rt::block_on(<::entrait::Impl<App> as @T@>::adget(&app, 5)) }",
        ),
    ]
}

pub struct Case {
    pub src: String,
    pub twin: String,
    pub summary: String,
    pub nontrivial: bool,
    pub classes: Vec<String>,
}

fn module(name: &str, shadows: &[&str], unit_src: &str, expr: &str, trait_name: &str) -> String {
    format!(
        "pub mod {name} {{\n    // no imports on purpose\n    pub struct App;\n{}\n{}\n    pub fn go() -> u64 {{ {} }}\n}}\n",
        shadows.iter().map(|s| format!("    {s}\n")).collect::<String>(),
        unit_src.replace("@T@", trait_name).lines().map(|l| format!("    {l}\n")).collect::<String>(),
        expr.replace("@T@", trait_name)
    )
}

pub fn gen_case(t: &mut Tape, excl_marker_shadows: bool, excl_blanket_methods: bool) -> Case {
    let us = units();
    let ui = t.choose(us.len());
    let usrc = us[ui].1;
    let mut shadow_idx: Vec<usize> = vec![];
    let mut shadow_names: Vec<&str> = vec![];
    let n = t.weighted(&[1, 3, 3, 2, 2, 1]);
    for _ in 0..n {
        let si = t.choose(SHADOWS.len());
        let (nm, _) = SHADOWS[si];
        if shadow_names.contains(&nm) || !shadow_allowed(nm, usrc, excl_marker_shadows, excl_blanket_methods) {
            continue;
        }
        shadow_names.push(nm);
        shadow_idx.push(si);
    }
    // sometimes the generated trait itself is named like something the macro refers to
    let mut hostile_trait = "Foo";
    if t.chance(1, 4) {
        let cand = HOSTILE_TRAIT_NAMES[t.choose(HOSTILE_TRAIT_NAMES.len())];
        if !shadow_names.contains(&cand) && !(excl_marker_shadows && (cand == "Sync" || cand == "Send")) {
            hostile_trait = cand;
        }
    }
    make_case(ui, &shadow_idx, hostile_trait)
}

fn shadow_allowed(nm: &str, usrc: &str, excl_marker_shadows: bool, excl_blanket_methods: bool) -> bool {
    if excl_marker_shadows && (nm == "Sync" || nm == "Send") {
        return false;
    }
    if excl_blanket_methods && nm.starts_with("blanket trait") {
        return false;
    }
    // (a unit that itself declares an item called `T` cannot live next to a local `struct T`: the user's own clash)
    if nm == "T" && usrc.contains("entrait(T,") {
        return false;
    }
    // async_trait's own expansion refers to a bare `Box` (a foreign macro's capture, not entrait's)
    !(nm == "Box" && usrc.contains("async_trait"))
}

/// the deterministic part: every unit x every hostile trait name, and every unit x every single shadowing item
pub fn lattice(excl_marker_shadows: bool, excl_blanket_methods: bool) -> Vec<Case> {
    let us = units();
    let mut out = vec![];
    for ui in 0..us.len() {
        for name in HOSTILE_TRAIT_NAMES {
            if excl_marker_shadows && (name == "Sync" || name == "Send") {
                continue;
            }
            out.push(make_case(ui, &[], name));
        }
        for (si, (nm, _)) in SHADOWS.iter().enumerate() {
            if shadow_allowed(nm, us[ui].1, excl_marker_shadows, excl_blanket_methods) {
                out.push(make_case(ui, &[si], "Foo"));
            }
        }
    }
    out
}

pub fn make_case(ui: usize, shadow_idx: &[usize], hostile_trait: &str) -> Case {
    let us = units();
    let (uname, usrc, uexpr) = us[ui];
    let shadows: Vec<&str> = shadow_idx.iter().map(|i| SHADOWS[*i].1).collect();
    let shadow_names: Vec<&str> = shadow_idx.iter().map(|i| SHADOWS[*i].0).collect();
    let mut src = String::from("#![allow(warnings)]\n");
    src.push_str(&module("benign", &[], usrc, uexpr, "Foo"));
    src.push_str(&module("hostile", &shadows, usrc, uexpr, hostile_trait));
    src.push_str("pub fn run() -> Vec<String> {\n    let mut fails = vec![];\n    crate::rt::expect_eq(&mut fails, \"value computed in the hostile scope vs the benign scope\", &hostile::go(), &benign::go());\n    fails\n}\n");
    let mut twin = String::from("#![allow(warnings)]\n");
    twin.push_str(&module("benign", &[], usrc, uexpr, "Foo"));
    // the twin's extra module has the shadowing items but no entrait usage: if that does not compile the shadows clash among themselves
    twin.push_str(&module("hostile_items_only", &shadows, "", "0", "Foo"));
    twin.push_str(&module("hostile", &[], usrc, uexpr, "Foo"));
    twin.push_str("pub fn run() -> Vec<String> { vec![] }\n");
    let mut classes = vec![format!("unit:{uname}")];
    for s in &shadow_names {
        classes.push(format!("shadow:{s}"));
    }
    if hostile_trait != "Foo" {
        classes.push(format!("trait_named:{hostile_trait}"));
    }
    let summary = format!("unit `{uname}` with local items {:?}{}", shadows, if hostile_trait != "Foo" { format!(" and the generated/entraited trait named `{hostile_trait}`") } else { String::new() });
    Case { src, twin, summary, nontrivial: !shadows.is_empty() || hostile_trait != "Foo", classes }
}

fn run_single(name: &str, src: &str) -> Result<(String, String), String> {
    let mut b = Batch::new(name, Opts { feature_unimock: false, members: 1, ..Default::default() });
    b.add("c00000", src.to_string());
    let out = b.build_and_run();
    b.cleanup();
    if let Some(d) = out.compile_failed.values().next() {
        return Err(d.first().map(|x| format!("{} {}", x.code, x.message)).unwrap_or_default());
    }
    out.ran.get("c00000").cloned().ok_or_else(|| "no result".to_string())
}

/// every unit inside one `#![no_std]` library crate (type-checked only)
fn no_std_src() -> String {
    let mut s = String::from("#![allow(warnings)]\npub fn run() {}\n");
    for (i, (name, usrc, _)) in units().into_iter().enumerate() {
        if usrc.contains("async_trait") {
            continue; // async_trait's own expansion needs `Box` from the std prelude
        }
        let body = usrc.replace("@T@", "Foo").replace("crate::rt::yield_once().await;", "");
        s.push_str(&format!("pub mod u{i}_{name} {{\n    pub struct App;\n{}\n}}\n", body.lines().map(|l| format!("    {l}\n")).collect::<String>()));
    }
    s
}

pub const TAPE_LEN: usize = 24;

pub fn run(ctx: &mut Ctx) {
    ctx.rule = "cases = one of 17 usage units (fn with generic / async / by-value / no_deps+?Send / concrete deps, module, leaf trait static, ref, Borrow, ref+async_trait, dependency inversion \
                static, ref, Borrow, ref+async_trait; fn / module / impl block whose dependency bound is the generated trait), invoked by absolute path in a module without imports, x a generated subset of local items shadowing {Impl, Sync, Send, Future, AsRef, Borrow, Box, \
                Option, core, entrait, std, Sized, Output, Target, T, convert, marker, future, unimock, mockall} (structs, traits, modules) x optionally naming the generated trait Send/Sync/Future/\
                Impl/AsRef/Sized; the hostile module must compile and compute the same value as the benign one; plus one #![no_std] crate with every unit; non-trivial = >=1 shadow or a hostile \
                trait name; distinct = distinct program text. E1 leg: 60 000 (thorough 1 000 000) generated invocations of every mode; in each accepted expansion no name of {core, std, alloc, entrait, mockall, unimock, async_trait} may start a path and no item name of {Impl, Send, Sync, Future, AsRef, Borrow, Deref, Box, Pin, Sized, Option, Result, Unimock, PhantomData, ..} may stand at a path start unless the user's own tokens have it in that position. Deterministic part: every unit x every hostile trait name and every unit x every single shadowing item; random part: subsets"
        .into();
    let open = crate::ev::open_findings("C19");
    let excl = open.iter().any(|f| f.key == "bare-sync-send-idents");
    let excl_blanket = open.iter().any(|f| f.key == "blanket-trait-method-capture");
    for f in &open {
        let probe = match f.key.as_str() {
            "bare-sync-send-idents" => "#![allow(warnings)]\npub mod hostile {\n    pub struct App;\n    pub struct Sync;\n    #[::entrait::entrait(pub Foo)]\n    pub fn foo(_deps: &impl ::core::any::Any) -> u64 { 1 }\n}\npub fn run() -> Vec<String> { vec![] }\n",
            "blanket-trait-method-capture" => "#![allow(warnings)]\npub mod hostile {\n    pub struct App;\n    pub trait Hijack { fn as_ref(&self) -> u8 { 0 } }\n    impl<X: ?::core::marker::Sized> Hijack for X {}\n    #[::entrait::entrait]\n    pub trait Leaf { fn leaf(&self) -> u64; }\n    impl Leaf for App { fn leaf(&self) -> u64 { 1 } }\n    pub fn go() -> u64 { <::entrait::Impl<App> as Leaf>::leaf(&::entrait::Impl::new(App)) }\n}\npub fn run() -> Vec<String> { vec![] }\n",
            other => crate::ev::inconclusive(&format!("known_findings.txt lists an open C19 finding with an unknown key: {other}")),
        };
        ctx.count_eval();
        if run_single("c19-probe", probe).is_err() {
            ctx.known(&format!("key={} {}", f.key, f.what));
        }
    }
    // E1: no watched name is referred to relatively by generated tokens
    if !e1_scan_leg(ctx) {
        return;
    }
    ctx.extra.insert("excluded_by_construction".into(), json!({"shadowing_Sync_or_Send": excl, "blanket_trait_with_as_ref_borrow_into_inner_methods": excl_blanket}));
    // no_std crate
    {
        let mut b = Batch::new("c19-nostd", Opts { feature_unimock: false, members: 1, no_std: true, check_only: true, ..Default::default() });
        b.add("c00000", no_std_src());
        let out = b.build_and_run();
        b.cleanup();
        ctx.count_eval();
        if let Some(d) = out.compile_failed.values().next() {
            ctx.violation(
                &format!("expansions do not compile in a #![no_std] crate: {}", d.first().map(|x| format!("{} {}", x.code, x.message)).unwrap_or_default()),
                &json!({"engine": "E2", "kind": "no_std", "src": no_std_src()}),
            );
            return;
        }
        ctx.class("no_std_crate_with_all_units");
    }
    let n = ctx.n(1000, 10000) as usize;
    let tapes = crate::drive::gen_tapes(ctx.seed, 1900, n, TAPE_LEN);
    let mut cases: Vec<Case> = lattice(excl, excl_blanket);
    ctx.extra.insert("deterministic_lattice_programs".into(), json!(cases.len()));
    cases.extend(tapes.iter().map(|tp| gen_case(&mut Tape::new(tp), excl, excl_blanket)));
    let mut batch = Batch::new("c19", Opts { feature_unimock: false, members: 16, ..Default::default() });
    for (i, c) in cases.iter().enumerate() {
        batch.add(&format!("c{i:05}"), c.src.clone());
    }
    let out = batch.build_and_run();
    batch.cleanup();
    super::common::crosscheck_records(ctx, &out.records);
    for (id, (status, msg)) in &out.ran {
        let i: usize = id[1..].parse().unwrap_or(0);
        let case = &cases[i];
        if msg.contains("__REMOVED__") {
            continue;
        }
        ctx.count_eval();
        for c in &case.classes {
            ctx.class(c);
        }
        if status == "ok" {
            if case.nontrivial {
                ctx.nontrivial(&case.src);
                ctx.sample(|| json!(case.summary));
            }
            continue;
        }
        ctx.violation(
            &format!("the expansion means something else in a scope with shadowing items ({status}): {msg} -- {}", case.summary),
            &json!({"engine": "E2", "src": case.src, "summary": case.summary}),
        );
        return;
    }
    let failed: Vec<(String, String, String, String)> = out
        .compile_failed
        .iter()
        .map(|(id, d)| {
            let i: usize = id[1..].parse().unwrap_or(0);
            (cases[i].summary.clone(), cases[i].src.clone(), cases[i].twin.clone(), d.first().map(|x| format!("{} {}", x.code, x.message)).unwrap_or_default())
        })
        .collect();
    let (violations, faults) = super::common::judge_compile_failures(ctx, "c19", false, &failed, "the expansion captures a name from the invoking scope");
    if violations == 0 && faults > 0 {
        crate::ev::inconclusive(&format!("{faults} C19 programs have a benign twin that does not compile (generator fault); first: {:?}", failed.first().map(|f| (&f.0, &f.3))));
    }
}

pub fn replay(ctx: &mut Ctx, v: &Value) {
    ctx.count_eval();
    if super::s(v, "kind") == "scan" {
        match scan_invocation(&super::s(v, "macro"), &super::s(v, "attr"), &super::s(v, "item")) {
            Err(e) => crate::ev::inconclusive(&e),
            Ok(Some(extra)) if !extra.is_empty() => ctx.violation(&format!("the expansion refers to {:?} through a relative path / bare identifier", extra), v),
            _ => {}
        }
        return;
    }
    if super::s(v, "kind") == "no_std" {
        let mut b = Batch::new("c19-nostd-replay", Opts { feature_unimock: false, members: 1, no_std: true, check_only: true, ..Default::default() });
        b.add("c00000", super::s(v, "src"));
        let out = b.build_and_run();
        b.cleanup();
        if !out.compile_failed.is_empty() {
            ctx.violation("expansions do not compile in a #![no_std] crate", v);
        }
        return;
    }
    match run_single("c19-replay", &super::s(v, "src")) {
        Err(e) => ctx.violation(&format!("hostile-scope program does not compile: {e}"), v),
        Ok((st, msg)) => {
            if st != "ok" {
                ctx.violation(&format!("the expansion means something else in a scope with shadowing items: {msg}"), v);
            }
        }
    }
}

// ---------- E1 leg: every name the macro itself writes is reached through an absolute path ----------

/// crate-like names: a reference is `name ::` ...
const WATCH_CRATES: [&str; 7] = ["core", "std", "alloc", "entrait", "mockall", "unimock", "async_trait"];
/// item names the macro refers to (or might): a reference is the bare identifier in a path-start position
const WATCH_ITEMS: [&str; 18] =
    ["Impl", "Send", "Sync", "Future", "AsRef", "Borrow", "BorrowMut", "Deref", "Box", "Pin", "Sized", "Option", "Result", "Unimock", "PhantomData", "Unpin", "Default", "Into"];

/// identifiers of the watch lists that occur at the *start* of a path (not after `::`, not as a method/field after `.`,
/// not as a lifetime after `'`) anywhere in the stream; for crate-like names only when `::` follows
fn relative_refs(toks: &[crate::tok::Tok], out: &mut std::collections::BTreeSet<String>) {
    use crate::tok::Tok;
    for (i, t) in toks.iter().enumerate() {
        match t {
            Tok::Group(_, inner) => relative_refs(inner, out),
            Tok::Ident(x) => {
                let after_path_sep = i >= 2 && toks[i - 1] == Tok::Punct(':') && toks[i - 2] == Tok::Punct(':');
                let after_dot_or_tick = i >= 1 && (toks[i - 1] == Tok::Punct('.') || toks[i - 1] == Tok::Punct('\''));
                if after_path_sep || after_dot_or_tick {
                    continue;
                }
                let followed_by_sep = toks.get(i + 1) == Some(&Tok::Punct(':')) && toks.get(i + 2) == Some(&Tok::Punct(':'));
                if WATCH_CRATES.contains(&x.as_str()) {
                    if followed_by_sep {
                        out.insert(x.clone());
                    }
                } else if WATCH_ITEMS.contains(&x.as_str()) {
                    // `name: Type` (a field / parameter called like the item) is not a reference
                    let is_binding = toks.get(i + 1) == Some(&Tok::Punct(':')) && !followed_by_sep;
                    if !is_binding {
                        out.insert(x.clone());
                    }
                }
            }
            _ => {}
        }
    }
}

/// Some(names) if the expansion refers to watched names relatively that the user's own tokens did not mention relatively
pub fn scan_invocation(macro_name: &str, attr: &str, item: &str) -> Result<Option<Vec<String>>, String> {
    let out = match crate::e1::outcome(macro_name, attr, item).map_err(|e| format!("HARNESS: {e}"))? {
        crate::e1::Outcome::Accepted(t, _) => t,
        _ => return Ok(None),
    };
    let mut user = std::collections::BTreeSet::new();
    relative_refs(&crate::tok::toks_of_src(attr).map_err(|e| format!("HARNESS: {e}"))?, &mut user);
    relative_refs(&crate::tok::toks_of_src(item).map_err(|e| format!("HARNESS: {e}"))?, &mut user);
    let mut gen = std::collections::BTreeSet::new();
    relative_refs(&out, &mut gen);
    let extra: Vec<String> = gen.difference(&user).cloned().collect();
    Ok(if extra.is_empty() { Some(vec![]) } else { Some(extra) })
}

pub fn e1_scan_leg(ctx: &mut Ctx) -> bool {
    let n = ctx.n(60_000, 1_000_000);
    crate::drive::run_tapes_par(ctx, 1950, n, 160, |ctx, tape| {
        let mut t = Tape::new(tape);
        let inv = super::common::gen_invocation(&mut t);
        ctx.count_eval();
        match scan_invocation(&inv.macro_name, &inv.attr, &inv.item) {
            Err(e) => crate::ev::inconclusive(&e),
            Ok(None) => {
                ctx.class("scan:not_accepted");
                Ok(())
            }
            Ok(Some(extra)) if extra.is_empty() => {
                ctx.class("scan:only_absolute_references");
                ctx.nontrivial(&(&inv.macro_name, &inv.attr, &inv.item));
                ctx.sample(|| json!({"scan": format!("#[{}({})] {}", inv.macro_name, inv.attr, super::c20::truncate(&inv.item, 160))}));
                Ok(())
            }
            Ok(Some(extra)) => Err(crate::drive::Fail::new(
                format!("the expansion refers to {:?} through a relative path / bare identifier (the invoking scope can capture it): #[{}({})]", extra, inv.macro_name, inv.attr),
                json!({"engine": "E1", "kind": "scan", "macro": inv.macro_name, "attr": inv.attr, "item": inv.item}),
            )),
        }
    })
}
