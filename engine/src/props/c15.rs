//! C15 — misuse yields a compile-time diagnostic; the macro never panics.
//!
//! Oracle: (1) `catch_unwind(expand)` never unwinds; (2) whatever comes out parses as a `syn::File` (checked only
//! when the input item itself parses as a `syn::Item`, so syntax syn does not know is a discarded case, never an alarm);
//! (3) each documented misuse, constructed so that it is the only thing wrong, is rejected with a message of its own
//! category (matched on category keywords, so rewording/typo fixes are not alarms).

use crate::drive::{run_tapes_par, Fail};
use crate::e1::{self, Expansion};
use crate::ev::Ctx;
use crate::gen::{self, FnGenCfg, TraitGenCfg};
use crate::tape::Tape;
use crate::tok;
use serde_json::{json, Value};

#[derive(Clone, Debug)]
pub struct Case {
    pub macro_name: String,
    pub attr: String,
    pub item: String,
    /// documented misuse category this case was built to trigger
    pub misuse: Option<&'static str>,
    /// free-form detail (e.g. the unknown option name)
    pub detail: String,
    /// the items inside the module / impl block reach the macro as `macro_rules!` `$i:item` fragments
    /// (one group with invisible delimiters each)
    pub wrap_items: bool,
}

impl Case {
    /// the item as the macro receives it
    pub fn item_stream(&self) -> Result<proc_macro2::TokenStream, String> {
        use proc_macro2::{Delimiter, Group, TokenTree};
        use quote::ToTokens;
        let ts = tok::parse_src(&self.item).map_err(|e| format!("HARNESS: item {e}: {}", self.item))?;
        if !self.wrap_items {
            return Ok(ts);
        }
        let mut tts: Vec<TokenTree> = ts.clone().into_iter().collect();
        let body = match tts.pop() {
            Some(TokenTree::Group(g)) if g.delimiter() == Delimiter::Brace => g,
            _ => return Ok(ts),
        };
        // (only a body that is a sequence of items can have been assembled from `$i:item` fragments)
        let items: Vec<proc_macro2::TokenStream> = match syn::parse2::<syn::File>(body.stream()) {
            Ok(f) if f.attrs.is_empty() => f.items.iter().map(|i| i.to_token_stream()).collect(),
            _ => match syn::parse2::<WrapImplItems>(body.stream()) {
                Ok(w) => w.0,
                Err(_) => return Ok(ts),
            },
        };
        let mut inner = proc_macro2::TokenStream::new();
        for it in items {
            inner.extend(std::iter::once(TokenTree::Group(Group::new(Delimiter::None, it))));
        }
        let mut out: proc_macro2::TokenStream = tts.into_iter().collect();
        out.extend(std::iter::once(TokenTree::Group(Group::new(Delimiter::Brace, inner))));
        Ok(out)
    }

    pub fn json(&self) -> Value {
        json!({"engine": "E1", "macro": self.macro_name, "attr": self.attr, "item": self.item, "misuse": self.misuse, "detail": self.detail, "wrap_items": self.wrap_items})
    }
}

/// the items of an impl block's body (fns without `self`, consts, types), each re-printed on its own
struct WrapImplItems(Vec<proc_macro2::TokenStream>);

impl syn::parse::Parse for WrapImplItems {
    fn parse(input: syn::parse::ParseStream) -> syn::Result<Self> {
        use quote::ToTokens;
        let mut v = vec![];
        while !input.is_empty() {
            v.push(input.parse::<syn::ImplItem>()?.to_token_stream());
        }
        Ok(WrapImplItems(v))
    }
}

pub const MISUSES: [&str; 8] = [
    "missing_deps",
    "self_receiver",
    "concrete_in_mod",
    "concrete_in_impl",
    "unknown_option",
    "unsupported_option",
    "custom_delegate_without_target",
    "target_without_delegate_by",
];

fn category_matches(cat: &str, msg: &str, detail: &str) -> bool {
    let m = msg.to_lowercase();
    match cat {
        "missing_deps" => m.contains("no_deps"),
        "self_receiver" => m.contains("self"),
        "concrete_in_mod" => m.contains("concrete") && m.contains("module"),
        "concrete_in_impl" => m.contains("concrete") && m.contains("impl"),
        "unknown_option" => m.contains("option") && msg.contains(detail) && !m.contains("support"),
        "unsupported_option" => m.contains("support") && m.contains("option"),
        "custom_delegate_without_target" => m.contains("delegat") && m.contains("trait") && !m.contains("missing"),
        "target_without_delegate_by" => m.contains("delegate_by"),
        _ => false,
    }
}

#[derive(Debug)]
pub enum Verdict {
    Accepted,
    Rejected(String),
    Discarded(&'static str),
}

pub fn check(case: &Case, strict_known: bool) -> Result<Verdict, String> {
    let _ = strict_known;
    let attr_ts = tok::parse_src(&case.attr).map_err(|e| format!("HARNESS: attr {e}: {}", case.attr))?;
    let exp = e1::expand_ts(&case.macro_name, attr_ts, case.item_stream()?);
    let ts = match exp {
        Expansion::Panic(msg) => return Err(format!("macro panicked: {msg}")),
        Expansion::Tokens(ts) => ts,
    };
    let toks = tok::toks(ts.clone());
    let rejected = tok::find_compile_error(&toks);
    if syn::parse2::<syn::File>(ts.clone()).is_err() {
        // believe it only if the *input* was something syn can parse as an item
        let input_ok = tok::parse_src(&case.item).ok().map(|i| syn::parse2::<syn::Item>(i).is_ok()).unwrap_or(false);
        if input_ok {
            let e = syn::parse2::<syn::File>(ts).err().map(|e| e.to_string()).unwrap_or_default();
            return Err(format!("expansion does not parse as Rust items ({e}): `{}`", truncate(&tok::render(&toks), 400)));
        }
        return Ok(Verdict::Discarded("input_not_syn_item"));
    }
    if let Some(cat) = case.misuse {
        match &rejected {
            None => return Err(format!("documented misuse `{cat}` was accepted without a diagnostic")),
            Some(msg) => {
                if !category_matches(cat, msg, &case.detail) {
                    return Err(format!("documented misuse `{cat}` rejected with an unrelated message: {msg}"));
                }
            }
        }
    }
    Ok(match rejected {
        Some(m) => Verdict::Rejected(m),
        None => Verdict::Accepted,
    })
}

fn truncate(s: &str, n: usize) -> String {
    if s.len() <= n {
        s.to_string()
    } else {
        let mut end = n;
        while !s.is_char_boundary(end) {
            end -= 1;
        }
        format!("{}…", &s[..end])
    }
}

// ---------- generators ----------

const ATTR_ATOMS: [&str; 60] = [
    "Foo", "pub Foo", "pub(crate) Foo", "no_deps", "no_deps = true", "no_deps = false", "export", "export = true", "?Send", "mock_api = FooMock",
    "unimock", "unimock = false", "mockall", "mockall = true", "delegate_by = ref", "delegate_by = Self", "delegate_by = Borrow",
    "delegate_by = Custom", "delegate_by", "ref", "dyn", "TraitImpl", "pub TraitImpl", // well-formed atoms above
    "no_deps =", "no_deps = 1", "unimock = \"x\"", "mock_api", "mock_api =", "mock_api = 3", "mock_api = pub", "delegate_by =", "delegate_by = 1",
    "delegate_by = ?", "?Sync", "?", "?1", "? Send", "fn", "self", "Self", "crate", "pub", "mod", "()", "[x]", "{}", "1", "\"s\"", "'a", "=", "::",
    "Foo::Bar", "r#Foo", "r#match", "bogus", "bogus = true", "export = maybe", "pub(in crate::x) Foo", "#", "Foo Bar",
];

fn gen_attr_any(t: &mut Tape) -> String {
    let n = t.weighted(&[2, 4, 4, 3, 2, 1]);
    let mut s = String::new();
    for i in 0..n {
        if i > 0 {
            s.push_str(match t.weighted(&[10, 1, 1, 1]) {
                0 => ", ",
                1 => " ",
                2 => ",, ",
                _ => "; ",
            });
        }
        s.push_str(ATTR_ATOMS[t.choose(ATTR_ATOMS.len())]);
    }
    if t.chance(1, 10) {
        s.push(',');
    }
    s
}

const OTHER_ITEMS: [&str; 20] = [
    "struct S { x: i32 }",
    "pub struct T(i32);",
    "enum E { A, B }",
    "const C: i32 = 1;",
    "static S: i32 = 1;",
    "type A = i32;",
    "use std::fmt;",
    "union U { a: u32, b: f32 }",
    "macro_rules! m { () => {} }",
    "extern \"C\" { fn c(x: i32); }",
    "extern crate core;",
    "impl X { fn f(&self) {} }",
    "impl<T> Tr for X<T> { fn f(d: &impl Sized) {} }",
    "impl !Send for X {}",
    "unsafe mod m { pub fn f(d: &impl Sized) {} }",
    "mod outline;",
    "auto trait Au {}",
    "unsafe auto trait Au {}",
    "trait Alias = Send + Sync;",
    "m! { x }",
];

fn rich_fn_cfg() -> FnGenCfg {
    FnGenCfg { allow_concrete: true, allow_no_deps: true, allow_leading_unsafe: true, rich_syntax: true, soup_bodies: false }
}

/// parse-friendly body (C15 needs items syn can parse)
fn sane_body(f: &mut gen::FnSrc) {
    f.body = "{ todo!() }".into();
}

fn gen_item_any(t: &mut Tape, allow_known: &Known) -> String {
    match t.weighted(&[5, 4, 5, 3, 2]) {
        0 => {
            // fn of any shape, including malformed-for-entrait ones
            let name = if allow_known.raw_fn_name_conflict { *t.pick(&["foo", "foo", "r#match", "arg0", "foo_"]) } else { *t.pick(&["foo", "foo", "arg0", "foo_"]) };
            let vis = gen::gen_vis(t);
            let (mut f, _) = gen::gen_fn(t, name, vis, &rich_fn_cfg());
            sane_body(&mut f);
            match t.weighted(&[6, 1, 1, 1, 1]) {
                0 => {}
                1 => f.params.clear(),
                2 => f.params.insert(0, "&self".into()),
                3 => f.params.insert(0, "self".into()),
                _ => {
                    // a parameter named like the fn / like a generated name
                    f.params.push(format!("{name}: i32"));
                    if t.flip() {
                        f.params.push("_: u8".into());
                        f.params.push("arg1: u8".into());
                    }
                }
            }
            f.render()
        }
        1 => {
            let cfg = FnGenCfg { allow_concrete: true, allow_no_deps: false, allow_leading_unsafe: true, rich_syntax: true, soup_bodies: false };
            let n = t.range(0, 4);
            let mut items = vec![];
            for i in 0..n {
                let it = gen::gen_mod_item(t, i, &cfg);
                items.push(it.src);
            }
            match t.weighted(&[8, 1, 1]) {
                0 => format!("{} mod {} {{ {} }}", gen::gen_vis(t), *t.pick(&["m", "m", "r#match", "r#type", "r#plain", "Mod9"]), items.join("\n")),
                1 => "mod m;".to_string(),
                _ => format!("mod m {{ #![allow(unused)] {} }}", items.join("\n")),
            }
        }
        2 => {
            let cfg = TraitGenCfg {
                ref_self_only: false,
                patterns: allow_known.trait_patterns,
                default_bodies: true,
                assoc_types: true,
                other_items: true,
                unsafety: true,
                trait_attrs: true,
                method_attrs: true,
                generics: true,
                async_methods: true,
            };
            gen::gen_trait(t, "Tr", &cfg).render()
        }
        3 => {
            let cfg = FnGenCfg { allow_concrete: true, allow_no_deps: false, allow_leading_unsafe: true, rich_syntax: true, soup_bodies: false };
            let n = t.range(0, 3);
            let mut items = vec![];
            for i in 0..n {
                let (mut f, _) = gen::gen_fn(t, &format!("m{i}"), String::new(), &cfg);
                sane_body(&mut f);
                match t.weighted(&[6, 1, 1]) {
                    0 => {}
                    1 => f.params.clear(),
                    _ => f.params.insert(0, "&self".into()),
                }
                items.push(f.render());
            }
            if t.chance(1, 5) {
                items.push("const K: usize = 1;".into());
            }
            if t.chance(1, 5) {
                items.push("type X = i32;".into());
            }
            let uns = if t.chance(1, 8) { "unsafe " } else { "" };
            // (the trait may be written as a path, with generic arguments, for a path or a generic instantiation)
            let path = *t.pick(&["TraitImpl", "TraitImpl", "TraitImpl", "TraitImpl", "TraitImpl<u8>", "TraitImpl<>", "a::TraitImpl", "a::TraitImpl<'static, u8>", "TraitImpl::<u8>"]);
            let ty = *t.pick(&["MyType", "MyType", "MyType", "a::MyType", "G<u8>", "(u8, u8)"]);
            format!("{uns}impl {path} for {ty} {{ {} }}", items.join("\n")).replacen("impl TraitImpl for MyType", "impl TraitImpl for MyType", 1)
        }
        _ => OTHER_ITEMS[t.choose(OTHER_ITEMS.len())].to_string(),
    }
}

#[derive(Clone, Copy)]
pub struct Known {
    /// F5: fn named by a raw identifier with a same-named parameter
    pub raw_fn_name_conflict: bool,
    /// F6: non-ident parameter patterns in trait methods
    pub trait_patterns: bool,
}

fn gen_misuse(t: &mut Tape) -> Case {
    let macro_name = e1::MACROS[t.weighted(&[5, 2, 2, 1])].to_string();
    let cat = MISUSES[t.choose(MISUSES.len())];
    let plain = FnGenCfg { allow_concrete: false, allow_no_deps: false, allow_leading_unsafe: true, rich_syntax: false, soup_bodies: false };
    let mut detail = String::new();
    let vis = gen::gen_vis(t);
    let (attr, item) = match cat {
        "missing_deps" => {
            let (mut f, _) = gen::gen_fn(t, "foo", vis, &plain);
            f.params.clear();
            f.generics.clear();
            f.where_.clear();
            sane_body(&mut f);
            match t.choose(3) {
                0 => ("Foo".to_string(), f.render()),
                1 => {
                    f.vis = "pub".into();
                    ("Foo".to_string(), format!("mod m {{ {} }}", f.render()))
                }
                _ => (String::new(), format!("impl TraitImpl for MyType {{ {} }}", f.render())),
            }
        }
        "self_receiver" => {
            let (mut f, _) = gen::gen_fn(t, "foo", vis, &plain);
            f.params[0] = (*t.pick(&["&self", "self", "&mut self"])).to_string();
            f.generics.clear();
            f.where_.clear();
            sane_body(&mut f);
            match t.choose(3) {
                0 => ("Foo".to_string(), f.render()),
                1 => {
                    f.vis = "pub".into();
                    ("Foo".to_string(), format!("mod m {{ {} }}", f.render()))
                }
                _ => (String::new(), format!("impl TraitImpl for MyType {{ {} }}", f.render())),
            }
        }
        "concrete_in_mod" | "concrete_in_impl" => {
            let (mut f, _) = gen::gen_fn(t, "foo", "pub".into(), &plain);
            f.params[0] = format!("c: {}", *t.pick(&["&Conf", "Conf", "&a::Conf", "&(i32, u8)", "&G<i32>"]));
            f.generics.clear();
            f.where_.clear();
            sane_body(&mut f);
            // the misuse stays a misuse when the fn is conditionally compiled (enabled or not)
            if t.chance(1, 3) {
                f.attrs.insert(0, (*t.pick(&["#[cfg(all())]", "#[cfg(any())]", "#[cfg(debug_assertions)]", "#[cfg(not(test))]"])).to_string());
            }
            let (mut g, _) = gen::gen_fn(t, "bar", "pub".into(), &plain);
            sane_body(&mut g);
            let items = if t.flip() { format!("{}\n{}", g.render(), f.render()) } else { format!("{}\n{}", f.render(), g.render()) };
            if cat == "concrete_in_mod" {
                ("Foo".to_string(), format!("mod m {{ {items} }}"))
            } else {
                ((*t.pick(&["", "ref"])).to_string(), format!("impl TraitImpl for MyType {{ {items} }}"))
            }
        }
        "unknown_option" => {
            let name = *t.pick(&["bogus", "exprot", "nodeps", "mock", "delegate", "Send"]);
            let opt = if name == "Send" {
                detail = "Sync".into();
                "?Sync".to_string()
            } else {
                detail = name.to_string();
                if t.flip() {
                    name.to_string()
                } else {
                    format!("{name} = true")
                }
            };
            match t.choose(3) {
                0 => {
                    let (mut f, _) = gen::gen_fn(t, "foo", vis, &plain);
                    sane_body(&mut f);
                    (format!("Foo, {opt}"), f.render())
                }
                1 => (format!("Foo, export, {opt}"), "mod m { pub fn foo(d: &impl Sized) {} }".to_string()),
                _ => (format!("unimock = false, {opt}"), "trait Tr { fn m(&self); }".to_string()),
            }
        }
        "unsupported_option" => match t.choose(3) {
            0 => {
                let (mut f, _) = gen::gen_fn(t, "foo", vis, &plain);
                sane_body(&mut f);
                let opt = *t.pick(&["delegate_by = ref", "delegate_by", "delegate_by = Custom", "delegate_by = Self"]);
                if t.flip() {
                    (format!("Foo, {opt}"), f.render())
                } else {
                    f.vis = "pub".into();
                    (format!("Foo, {opt}"), format!("mod m {{ {} }}", f.render()))
                }
            }
            1 => {
                let opt = *t.pick(&["no_deps", "export", "export = false", "no_deps = false"]);
                let attr = if t.flip() { opt.to_string() } else { format!("unimock = false, {opt}") };
                (attr, "trait Tr { fn m(&self); }".to_string())
            }
            _ => {
                let opt = *t.pick(&["no_deps", "export", "unimock", "mockall", "?Send", "mock_api = M", "delegate_by = ref"]);
                let attr = if opt != "delegate_by = ref" && t.flip() { format!("ref {opt}") } else { opt.to_string() };
                // `delegate_by = ref` spelled after `ref` is ambiguous; keep it alone
                (attr, "impl TraitImpl for MyType { fn m(d: &impl Sized) {} }".to_string())
            }
        },
        "custom_delegate_without_target" => {
            let extra = *t.pick(&["", ", unimock = false", ", ?Send"]);
            (format!("delegate_by = Custom{extra}"), "trait Tr { fn m(&self); }".to_string())
        }
        _ => {
            let head = *t.pick(&["TraitImpl", "pub TraitImpl", "TraitImpl, delegate_by = Self", "TraitImpl, unimock = false", "TraitImpl, delegate_by"]);
            (head.to_string(), "trait Tr { fn m(&self); }".to_string())
        }
    };
    Case { macro_name, attr, item, misuse: Some(cat), detail, wrap_items: false }
}

/// identifier-valued options given a keyword (path keywords are identifiers to some parsers): whatever the macro makes of them,
/// it must be a diagnostic or Rust
const KEYWORD_VALUES: [&str; 12] = ["crate", "self", "super", "Self", "dyn", "fn", "ref", "mut", "r#fn", "r#dyn", "_", "'a"];

fn gen_keyword_value(t: &mut Tape) -> Case {
    let macro_name = e1::MACROS[t.weighted(&[5, 2, 2, 1])].to_string();
    let kw = *t.pick(&KEYWORD_VALUES);
    let extra = *t.pick(&["", ", unimock = false", ", ?Send", ", mock_api = M"]);
    let (attr, item) = match t.choose(5) {
        0 => (format!("TraitImpl, delegate_by = {kw}{extra}"), "trait Tr { fn m(&self); }".to_string()),
        1 => (format!("pub TraitImpl, delegate_by = {kw}"), "pub trait Tr { async fn m(&self, x: i32) -> i32; }".to_string()),
        2 => (format!("delegate_by = {kw}{extra}"), "trait Tr { fn m(&self); }".to_string()),
        3 => (format!("Foo, mock_api = {kw}"), "fn foo(d: &impl Sized) {}".to_string()),
        _ => (format!("mock_api = {kw}"), "trait Tr { fn m(&self); }".to_string()),
    };
    Case { macro_name, attr, item, misuse: None, detail: String::new(), wrap_items: false }
}

pub fn gen_case(t: &mut Tape, known: &Known) -> Case {
    if t.chance(1, 5) {
        return gen_misuse(t);
    }
    if t.chance(1, 25) {
        return gen_keyword_value(t);
    }
    let macro_name = e1::MACROS[t.weighted(&[5, 2, 2, 1])].to_string();
    let item = gen_item_any(t, known);
    // mostly an attribute that fits the item, sometimes anything
    let attr = match t.weighted(&[3, 3]) {
        0 => {
            if item.contains("trait Tr") {
                gen::gen_trait_attr(t)
            } else if item.contains("impl TraitImpl") || item.contains("impl a::TraitImpl") {
                (*t.pick(&["", "ref", "dyn", "debug = false"])).to_string()
            } else {
                let nd = t.chance(1, 5);
                gen::gen_fn_attr(t, "Foo", nd)
            }
        }
        _ => gen_attr_any(t),
    };
    let wrap_items = (item.contains("impl TraitImpl") || item.contains("impl a::TraitImpl") || item.contains(" mod ")) && t.chance(1, 6);
    Case { macro_name, attr, item, misuse: None, detail: String::new(), wrap_items }
}

pub fn one_with(ctx: &mut Ctx, tape: &[u32], known: &Known) -> Result<(), Fail> {
    let mut t = Tape::new(tape);
    let case = gen_case(&mut t, known);
    if case.attr.contains("debug") && !case.attr.contains("debug = false") {
        return Ok(()); // `debug` prints the expansion to stdout; undocumented, excluded
    }
    ctx.count_eval();
    match check(&case, false) {
        Ok(v) => {
            let class = match (&v, case.misuse) {
                (Verdict::Discarded(why), _) => format!("discarded:{why}"),
                (_, Some(cat)) => format!("misuse:{cat}"),
                (Verdict::Accepted, None) => "accepted".to_string(),
                (Verdict::Rejected(_), None) => "rejected".to_string(),
            };
            ctx.class(&class);
            // non-trivial: got past both parsers (accepted) or is a documented misuse
            if matches!(v, Verdict::Accepted) || case.misuse.is_some() {
                ctx.nontrivial(&(&case.macro_name, &case.attr, &case.item));
                ctx.sample(|| case.json());
            }
            Ok(())
        }
        Err(e) if e.starts_with("HARNESS") => crate::ev::inconclusive(&format!("{e}\nattr: {}\nitem: {}", case.attr, case.item)),
        Err(e) => Err(Fail::new(e, case.json())),
    }
}

/// libFuzzer entry: Some(message) on a violation
pub fn fuzz_one(tape: &[u32]) -> Option<String> {
    fuzz_case(tape).map(|(m, _)| m)
}

pub fn fuzz_case(tape: &[u32]) -> Option<(String, Value)> {
    let known = Known { raw_fn_name_conflict: true, trait_patterns: true };
    let case = gen_case(&mut Tape::new(tape), &known);
    if case.attr.contains("debug") && !case.attr.contains("debug = false") {
        return None;
    }
    match check(&case, false) {
        Ok(_) => None,
        Err(e) if e.starts_with("HARNESS") => None,
        Err(e) => Some((e, case.json())),
    }
}

pub fn run(ctx: &mut Ctx) {
    ctx.rule = "cases = (macro variant, attribute argument tokens, item) decoded from a proptest choice tape: well-formed and malformed option lists, \
                fn/mod/trait/impl items of every shape plus non-supported item kinds, and constructed documented misuses; non-trivial = the expansion got \
                past both the item and the attribute parser (accepted) or the case is a documented misuse; distinct = distinct (macro, attr, item) text"
        .into();
    ctx.assumptions.push("`syn::File` parsing of the output stands in for rustc's parser; inputs that syn cannot parse as an item are discarded, not judged".into());
    let known = Known { raw_fn_name_conflict: true, trait_patterns: true };
    let cases = ctx.n(200_000, 4_000_000);
    if !run_tapes_par(ctx, 15, cases, 300, |c, tape| one_with(c, tape, &known)) {
        return;
    }
    // E3: committed corpus in every tier, a libFuzzer campaign in the thorough tier
    crate::fuzzrun::replay_corpus(ctx, "c15_no_panic", fuzz_case);
    if !ctx.violations.is_empty() {
        return;
    }
    if !ctx.quick() && !crate::fuzzrun::campaign(ctx, "c15_no_panic", fuzz_case, 500_000) {
        return;
    }
    e2_leg(ctx);
}

pub fn replay(ctx: &mut Ctx, v: &Value) {
    let misuse = v.get("misuse").and_then(|m| m.as_str()).and_then(|m| MISUSES.iter().find(|x| **x == m).copied());
    let case = Case { macro_name: super::s(v, "macro"), attr: super::s(v, "attr"), item: super::s(v, "item"), misuse, detail: super::s(v, "detail"), wrap_items: v.get("wrap_items").and_then(|w| w.as_bool()).unwrap_or(false) };
    ctx.count_eval();
    match check(&case, true) {
        Ok(_) => {}
        Err(e) if e.starts_with("HARNESS") => crate::ev::inconclusive(&e),
        Err(e) => ctx.violation(&e, v),
    }
}

// ---------- E2 leg: rustc reports the documented misuses as ordinary diagnostics in the offending file ----------

pub fn e2_leg(ctx: &mut Ctx) -> bool {
    use crate::e2::{Batch, Opts};
    let n = ctx.n(120, 1200) as usize;
    let tapes = crate::drive::gen_tapes(ctx.seed, 1500, n, 64);
    let cases: Vec<Case> = tapes.iter().map(|tp| gen_misuse(&mut Tape::new(tp))).collect();
    let mut batch = Batch::new("c15-e2", Opts { feature_unimock: false, members: 16, check_only: true, ..Default::default() });
    for (i, c) in cases.iter().enumerate() {
        let mac = match c.macro_name.as_str() {
            "entrait_export" | "entrait_export_unimock" => "::entrait::entrait_export",
            _ => "::entrait::entrait",
        };
        // supporting items so that the misuse is the only thing wrong with the program
        let src = format!(
            "#![allow(warnings)]\npub struct Conf;\npub struct MyType;\npub mod a {{ pub struct Conf; }}\npub struct G<T>(T);\npub trait A {{}}\npub trait B {{}}\npub trait C {{}}\n#[{mac}({})]\n{}\npub fn run() -> Vec<String> {{ vec![] }}\n",
            c.attr, c.item
        );
        batch.add(&format!("c{i:05}"), src);
    }
    let out = batch.build_and_run();
    batch.cleanup();
    for (i, c) in cases.iter().enumerate() {
        let id = format!("c{i:05}");
        ctx.count_eval();
        let cat = c.misuse.unwrap_or("");
        let Some(diags) = out.compile_failed.get(&id) else {
            ctx.violation(
                &format!("documented misuse `{cat}` compiled without any diagnostic under rustc: #[{}({})] {}", c.macro_name, c.attr, c.item),
                &c.json(),
            );
            return false;
        };
        if let Some(p) = diags.iter().find(|d| d.message.contains("panicked") || d.rendered.contains("panicked")) {
            ctx.violation(&format!("rustc reports a proc-macro panic for misuse `{cat}`: {}", p.message), &c.json());
            return false;
        }
        if !diags.iter().any(|d| category_matches(cat, &d.message, &c.detail)) {
            ctx.violation(
                &format!(
                    "rustc does not show the specific diagnostic for misuse `{cat}`; it reports: {}",
                    diags.iter().map(|d| d.message.clone()).collect::<Vec<_>>().join(" | ")
                ),
                &c.json(),
            );
            return false;
        }
        ctx.class(&format!("e2:misuse:{cat}"));
    }
    true
}
