#!/bin/bash
# tools/mutant.sh <patch.diff> <ID> [<ID>...]   - apply a patch to a scratch worktree of /repo and run checks against it
# (never touches /repo). MUT_BASE=<commit>: start the scratch worktree from that commit instead of HEAD (stored seeds name the
# commit they apply to in meta.json `applies_to`). Prints one line per check: <ID> exit=<code>.
set -u
PATCH=$(readlink -f "$1"); shift
WT=$(mktemp -d /tmp/mut-XXXXXX)
rmdir "$WT"
git -C /repo worktree add -q --detach "$WT" "${MUT_BASE:-HEAD}" || exit 2
cleanup() {
  git -C /repo worktree remove --force "$WT" 2>/dev/null; rm -rf "$WT"
  # E2 build directories of this scratch copy (each carries the path of the repository copy it belongs to)
  for d in $(ls -d /verif/work/e2-* 2>/dev/null); do [ "$(cat "$d/.owner" 2>/dev/null)" = "$WT" ] && rm -rf "$d"; done
}
trap cleanup EXIT
if ! git -C "$WT" apply "$PATCH"; then echo "patch does not apply"; exit 2; fi
cd "$(dirname "$0")/.."
for id in "$@"; do
  out=$(VERIF_REPO="$WT" VERIF_EVIDENCE_DIR=/verif/work/mutant-evidence ./check "$id" --tier quick 2>&1); code=$?
  echo "$id exit=$code $(echo "$out" | grep -m1 -E 'what:|INCONCLUSIVE|^OK' )"
done
