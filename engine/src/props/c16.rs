//! C16 — generated parameter names are usable for every parameter pattern list.
//!
//! Small-scope exhaustive (all valid lists of length <= 3 over the pattern alphabet, x {deps, no_deps}) plus random lists up to
//! length 7. E1 oracle on the generated trait method and the delegating impl method: one plain `ident: Type` per parameter
//! (no `mut`/`ref`/sub-pattern), same types in order, idents pairwise distinct and different from the fn name, plain bindings
//! keep their name, single-binding destructures take the binding's name, and the impl forwards exactly those idents in order.

use crate::drive::{run_tapes_par, Fail};
use crate::e1::{self, Outcome};
use crate::ev::Ctx;
use crate::tape::Tape;
use serde_json::{json, Value};

pub const NSYM: usize = 38;
pub const SYM_NAMES: [&str; NSYM] =
    ["ident", "mut ident", "ref ident", "r#ident", "_", "(a,b)", "N(a)", "N(a,_)", "S{a}", "&a", "ident==fn name", "ident==would-be generated argK", "ident==fn name + '_'", "N(fn name)", "N(fn name + '_')", "N(argK)", "(a,b,c)", "N(_)", "N(mut a)", "N(ref a)", "S{mut a}", "N(ref mut a)", "a @ _", "(a,_)", "NN(N(a))", "S{a: x}", "[a,_]", "mut ident==fn name", "N(mut fn name)", "r#<fn name>", "r#<would-be generated argK>", "N(a @ _)", "(a @ N(_), _)", "[_, a @ ..]", "NN(a @ N(_))", "mut <fn name + '_'>", "ref <fn name + '_'>", "<fn name + '_'> @ _"];
const RAW: [&str; 7] = ["r#type", "r#match", "r#loop", "r#move", "r#box", "r#dyn", "r#in"];
pub const DEFAULT_fname: &str = "foo";

#[derive(Clone, Debug)]
pub struct ParamSpec {
    pub pat: String,
    /// the name the method parameter must have, if the statement fixes it
    pub required: Option<String>,
    /// all names bound by the pattern (validity of the input)
    pub bindings: Vec<String>,
}

pub fn param(sym: usize, i: usize, len: usize, fn_name: &str) -> ParamSpec {
    #[allow(non_snake_case)]
    let fname = fn_name;
    let b = format!("b{i}");
    let c = format!("c{i}");
    let p = |pat: String, required: Option<String>, bindings: Vec<String>| {
        // a binding that coincides with the fn name must be renamed (any fresh name will do); a destructured binding that starts
        // with `_` is a don't-care (the macro recognises bindings by a lower-case first letter, the statement's alphabet has none)
        let required = match required {
            Some(r) if unraw(&r) == unraw(fn_name) => None,
            Some(r) if r.starts_with('_') && pat != r => None,
            other => other,
        };
        ParamSpec { pat, required, bindings }
    };
    match sym {
        0 => p(b.clone(), Some(b.clone()), vec![b]),
        1 => p(format!("mut {b}"), Some(b.clone()), vec![b]),
        2 => p(format!("ref {b}"), Some(b.clone()), vec![b]),
        3 => {
            let r = RAW[i % RAW.len()].to_string();
            p(r.clone(), Some(r.clone()), vec![r])
        }
        4 => p("_".into(), None, vec![]),
        5 => p(format!("({b}, {c})"), None, vec![b, c]),
        6 => p(format!("N({b})"), Some(b.clone()), vec![b]),
        7 => p(format!("N2({b}, _)"), Some(b.clone()), vec![b]),
        8 => p(format!("S {{ {b} }}"), Some(b.clone()), vec![b]),
        9 => p(format!("&{b}"), Some(b.clone()), vec![b]),
        10 => p(fname.into(), None, vec![fname.into()]),
        11 => {
            let k = if len > 1 { (i + 1) % len } else { 0 };
            let n = format!("arg{k}");
            p(n.clone(), Some(n.clone()), vec![n])
        }
        12 => {
            let n = format!("{fname}_");
            p(n.clone(), Some(n.clone()), vec![n])
        }
        13 => p(format!("N({fname})"), None, vec![fname.into()]),
        14 => {
            let n = format!("{fname}_");
            p(format!("N({n})"), Some(n.clone()), vec![n])
        }
        15 => {
            let k = if len > 1 { (i + 1) % len } else { 0 };
            let n = format!("arg{k}");
            p(format!("N({n})"), Some(n.clone()), vec![n])
        }
        16 => {
            let e = format!("e{i}");
            p(format!("({b}, {c}, {e})"), None, vec![b, c, e])
        }
        17 => p("N0(_)".into(), None, vec![]),
        // binding modes inside a single-binding destructure: only the name is lifted
        18 => p(format!("N(mut {b})"), Some(b.clone()), vec![b]),
        19 => p(format!("N(ref {b})"), Some(b.clone()), vec![b]),
        20 => p(format!("S {{ mut {b} }}"), Some(b.clone()), vec![b]),
        21 => p(format!("N(ref mut {b})"), Some(b.clone()), vec![b]),
        22 => p(format!("{b} @ _"), Some(b.clone()), vec![b]),
        23 => p(format!("({b}, _)"), Some(b.clone()), vec![b]),
        24 => p(format!("NN(N({b}))"), Some(b.clone()), vec![b]),
        25 => p(format!("S {{ {b}: {c} }}"), Some(c.clone()), vec![c]),
        26 => p(format!("[{b}, _]"), Some(b.clone()), vec![b]),
        27 => p(format!("mut {fname}"), None, vec![fname.into()]),
        28 => p(format!("N(mut {fname})"), None, vec![fname.into()]),
        // raw spellings are the same identifier to rustc
        29 => {
            let raw = if fname.starts_with("r#") { fname.to_string() } else { format!("r#{fname}") };
            p(raw, None, vec![fname.into()])
        }
        30 => {
            let k = if len > 1 { (i + 1) % len } else { 0 };
            let n = format!("arg{k}");
            p(format!("r#{n}"), Some(format!("r#{n}")), vec![n])
        }
        // a single binding with an `@` sub-pattern of its own inside a destructure: only the name is lifted
        31 => p(format!("N({b} @ _)"), Some(b.clone()), vec![b]),
        32 => p(format!("({b} @ N(_), _)"), Some(b.clone()), vec![b]),
        33 => p(format!("[_, {b} @ ..]"), Some(b.clone()), vec![b]),
        34 => p(format!("NN({b} @ N(_))"), Some(b.clone()), vec![b]),
        // the name a parameter called like the fn would be renamed to, taken by a binding with a binding mode
        35 => {
            let n = format!("{fname}_");
            p(format!("mut {n}"), Some(n.clone()), vec![n])
        }
        36 => {
            let n = format!("{fname}_");
            p(format!("ref {n}"), Some(n.clone()), vec![n])
        }
        _ => {
            let n = format!("{fname}_");
            p(format!("{n} @ _"), Some(n.clone()), vec![n])
        }
    }
}

#[derive(Clone, Debug)]
pub struct Case {
    pub fn_name: String,
    pub syms: Vec<usize>,
    pub no_deps: bool,
    pub params: Vec<ParamSpec>,
    pub attr: String,
    pub item: String,
}

impl Case {
    pub fn json(&self) -> Value {
        json!({"engine": "E1", "macro": "entrait", "attr": self.attr, "item": self.item, "no_deps": self.no_deps, "fn_name": self.fn_name,
               "patterns": self.params.iter().map(|p| p.pat.clone()).collect::<Vec<_>>(),
               "required_names": self.params.iter().map(|p| p.required.clone()).collect::<Vec<_>>(),
               "bindings": self.params.iter().map(|p| p.bindings.clone()).collect::<Vec<_>>(),
               "symbols": self.syms.iter().map(|s| SYM_NAMES[*s]).collect::<Vec<_>>()})
    }
}

/// None if the list would bind a name twice (not valid Rust, outside the quantifier)
pub fn build(syms: &[usize], no_deps: bool, is_async: bool, fn_name: &str) -> Option<Case> {
    #[allow(non_snake_case)]
    let fname = fn_name;
    let params: Vec<ParamSpec> = syms.iter().enumerate().map(|(i, s)| param(*s, i, syms.len(), fn_name)).collect();
    let mut seen = std::collections::HashSet::new();
    for p in &params {
        for b in &p.bindings {
            if !seen.insert(unraw(b).to_string()) {
                return None;
            }
        }
    }
    let mut ps: Vec<String> = vec![];
    if !no_deps {
        ps.push("deps: &impl Sized".into());
    }
    for (i, p) in params.iter().enumerate() {
        ps.push(format!("{}: Ty{i}", p.pat));
    }
    let attr = if no_deps { "Foo, no_deps".to_string() } else { "Foo".to_string() };
    let item = format!("{}fn {fname}({}) {{}}", if is_async { "async " } else { "" }, ps.join(", "));
    Some(Case { fn_name: fn_name.to_string(), syms: syms.to_vec(), no_deps, params, attr, item })
}

fn method_params(sig: &syn::Signature) -> Result<Vec<(String, String)>, String> {
    use quote::ToTokens;
    let mut out = vec![];
    let mut first = true;
    for arg in &sig.inputs {
        match arg {
            syn::FnArg::Receiver(_) if first => {}
            syn::FnArg::Receiver(_) => return Err("receiver in a non-first position".into()),
            syn::FnArg::Typed(pt) => match pt.pat.as_ref() {
                syn::Pat::Ident(pi) => {
                    if pi.by_ref.is_some() || pi.mutability.is_some() || pi.subpat.is_some() {
                        return Err(format!(
                            "generated method parameter `{}` is not a plain identifier (binding mode / sub-pattern copied into the method)",
                            pt.pat.to_token_stream()
                        ));
                    }
                    out.push((pi.ident.to_string(), pt.ty.to_token_stream().to_string()));
                }
                other => return Err(format!("generated method parameter `{}` is not an identifier", other.to_token_stream())),
            },
        }
        first = false;
    }
    Ok(out)
}

/// `r#x` and `x` are one identifier
fn unraw(s: &str) -> &str {
    s.strip_prefix("r#").unwrap_or(s)
}

pub fn check(c: &Case) -> Result<(), String> {
    use quote::ToTokens;
    let fname = c.fn_name.as_str();
    let out = match e1::outcome("entrait", &c.attr, &c.item).map_err(|e| format!("HARNESS: {e}"))? {
        Outcome::Accepted(_, ts) => ts,
        Outcome::Rejected(m) => return Err(format!("a valid parameter pattern list was rejected: {m}")),
        Outcome::Panic(m) => return Err(format!("macro panicked: {m}")),
    };
    let file: syn::File = syn::parse2(out).map_err(|e| format!("expansion does not parse: {e}"))?;
    let tr = file.items.iter().find_map(|i| if let syn::Item::Trait(t) = i { (t.ident == "Foo").then_some(t) } else { None }).ok_or("no trait Foo in the expansion")?;
    let tm = tr.items.iter().find_map(|i| if let syn::TraitItem::Fn(f) = i { Some(f) } else { None }).ok_or("trait Foo has no method")?;
    let im = file
        .items
        .iter()
        .find_map(|i| if let syn::Item::Impl(im) = i { im.items.iter().find_map(|x| if let syn::ImplItem::Fn(f) = x { Some(f) } else { None }) } else { None })
        .ok_or("no delegating impl method in the expansion")?;
    for (what, sig) in [("trait method", &tm.sig), ("impl method", &im.sig)] {
        let ps = method_params(sig).map_err(|e| format!("{what}: {e}"))?;
        if ps.len() != c.params.len() {
            return Err(format!("{what} has {} parameters, the fn has {}", ps.len(), c.params.len()));
        }
        for (i, (name, ty)) in ps.iter().enumerate() {
            if ty != &format!("Ty{i}") {
                return Err(format!("{what}: parameter {i} has type `{ty}`, expected `Ty{i}` (order/types changed)"));
            }
            if unraw(name) == unraw(fname) {
                return Err(format!("{what}: parameter {i} is named `{name}`, shadowing the function it must call"));
            }
            if let Some(req) = &c.params[i].required {
                if name != req {
                    return Err(format!("{what}: parameter {i} (`{}`) is named `{name}` but should keep the name `{req}`", c.params[i].pat));
                }
            }
            if c.params[i].bindings.len() >= 2 && c.params[i].required.is_none() && c.params[i].bindings.contains(name) {
                return Err(format!(
                    "{what}: parameter {i} (`{}`, {} bindings) took the name of one of its bindings (`{name}`) instead of a generated name",
                    c.params[i].pat,
                    c.params[i].bindings.len()
                ));
            }
            for (j, (other, _)) in ps.iter().enumerate() {
                if j < i && unraw(other) == unraw(name) {
                    return Err(format!("{what}: parameters {j} and {i} are both named `{name}`"));
                }
            }
        }
    }
    // positional forwarding: the impl body is `foo(self?, <idents in order>) [.await]`
    let ps = method_params(&im.sig)?;
    let body = crate::tok::toks(im.block.to_token_stream());
    let inner = match body.first() {
        Some(crate::tok::Tok::Group('{', inner)) => inner.clone(),
        _ => return Err("impl method body shape".into()),
    };
    let call_args = match (inner.first(), inner.get(1)) {
        (Some(crate::tok::Tok::Ident(f)), Some(crate::tok::Tok::Group('(', args))) if f == fname => args.clone(),
        _ => return Err(format!("delegating body does not call `{fname}(..)` directly: `{}`", crate::tok::render(&inner))),
    };
    let mut got: Vec<String> = vec![];
    for t in &call_args {
        if let crate::tok::Tok::Ident(x) = t {
            got.push(x.clone());
        }
    }
    let mut want: Vec<String> = vec![];
    if !c.no_deps {
        want.push("self".into());
    }
    want.extend(ps.iter().map(|(n, _)| n.clone()));
    if got != want {
        return Err(format!("delegating call forwards {:?} but the method's parameters in order are {:?}", got, want));
    }
    Ok(())
}

fn judge(ctx: &mut Ctx, c: &Case, known: &Known) -> Result<(), Fail> {
    ctx.count_eval();
    match check(c) {
        Ok(()) => {
            if c.syms.iter().any(|s| *s != 0) {
                ctx.nontrivial(&(&c.syms, c.no_deps, &c.item));
                ctx.sample(|| c.json());
            }
            Ok(())
        }
        Err(e) if e.starts_with("HARNESS") => crate::ev::inconclusive(&e),
        Err(e) => {
            if let Some(k) = known.matches(c, &e) {
                ctx.class(&format!("known:{k}"));
                return Ok(());
            }
            Err(Fail::new(e, c.json()))
        }
    }
}

/// open known findings of C16, keyed on the exact failing class
pub struct Known {
    pub keys: Vec<String>,
}

impl Known {
    fn matches(&self, _c: &Case, _msg: &str) -> Option<&str> {
        None
    }
}

pub fn run(ctx: &mut Ctx) {
    ctx.rule = format!(
        "exhaustive part: every list of length 0..=3 over the {NSYM}-symbol pattern alphabet {:?} (position i binds b<i>/c<i>, has type Ty<i>; lists binding a name twice \
         are not valid Rust and are skipped) x {{deps, no_deps}}; random part: lists of length 1..=7 from a proptest tape x {{deps, no_deps}} x {{sync, async}} x fn names {{foo, arg0, arg1, _arg1, foo_, b0, r#type}}; \
         non-trivial = at least one non-plain pattern; distinct = distinct (symbols, mode)",
        SYM_NAMES
    );
    let known = Known { keys: crate::ev::open_findings("C16").into_iter().map(|f| f.key).collect() };
    let mut skipped = 0u64;
    let mut total = 0u64;
    let mut first_fail: Option<Fail> = None;
    for len in 0..=3usize {
        let count = NSYM.pow(len as u32);
        for code in 0..count {
            let mut syms = vec![];
            let mut x = code;
            for _ in 0..len {
                syms.push(x % NSYM);
                x /= NSYM;
            }
            for no_deps in [false, true] {
                match build(&syms, no_deps, false, DEFAULT_fname) {
                    None => skipped += 1,
                    Some(c) => {
                        total += 1;
                        if let Err(f) = judge(ctx, &c, &known) {
                            ctx.frozen = false;
                            if first_fail.is_none() {
                                first_fail = Some(f);
                            }
                        }
                    }
                }
            }
        }
    }
    ctx.extra.insert("exhaustive_lists_checked".into(), json!(total));
    ctx.extra.insert("exhaustive_lists_skipped_duplicate_binding".into(), json!(skipped));
    ctx.exhaustive = Some(true);
    ctx.extra.insert("exhaustive_scope".into(), json!("all valid pattern lists of length <= 3 over the alphabet, both deps modes; the random part (length 4..7) is sampled"));
    if let Some(f) = first_fail {
        ctx.violation(&f.what, &f.replay);
        return;
    }
    let cases = ctx.n(100_000, 2_000_000);
    run_tapes_par(ctx, 16, cases, 16, |ctx, tape| {
        let mut t = Tape::new(tape);
        let len = t.range(1, 7);
        let syms: Vec<usize> = (0..len).map(|_| t.choose(NSYM)).collect();
        let no_deps = t.flip();
        let is_async = t.chance(1, 4);
        let fn_name = *t.pick(&["foo", "arg0", "arg1", "_arg1", "foo_", "b0", "r#type"]);
        match build(&syms, no_deps, is_async, fn_name) {
            None => {
                ctx.class("random:skipped_duplicate_binding");
                Ok(())
            }
            Some(c) => judge(ctx, &c, &known),
        }
    });
    if ctx.violations.is_empty() {
        e2_leg(ctx);
    }
}

pub fn replay(ctx: &mut Ctx, v: &Value) {
    use super::s;
    if s(v, "engine") == "E2" {
        let mut b = crate::e2::Batch::new("c16-replay", crate::e2::Opts { members: 1, ..Default::default() });
        b.add("c00000", s(v, "src"));
        let out = b.build_and_run();
        b.cleanup();
        ctx.count_eval();
        if !out.compile_failed.is_empty() {
            ctx.violation("a valid parameter pattern list does not compile after expansion", v);
        } else if out.ran.get("c00000").map(|(st, _)| st != "ok").unwrap_or(true) {
            ctx.violation("arguments are not forwarded positionally", v);
        }
        return;
    }
    let pats: Vec<String> = v.get("patterns").and_then(|a| a.as_array()).map(|a| a.iter().filter_map(|x| x.as_str().map(String::from)).collect()).unwrap_or_default();
    let req: Vec<Option<String>> = v.get("required_names").and_then(|a| a.as_array()).map(|a| a.iter().map(|x| x.as_str().map(String::from)).collect()).unwrap_or_default();
    let binds: Vec<Vec<String>> = v
        .get("bindings")
        .and_then(|a| a.as_array())
        .map(|a| a.iter().map(|x| x.as_array().map(|y| y.iter().filter_map(|z| z.as_str().map(String::from)).collect()).unwrap_or_default()).collect())
        .unwrap_or_default();
    let params = pats.iter().enumerate().map(|(i, p)| ParamSpec { pat: p.clone(), required: req.get(i).cloned().flatten(), bindings: binds.get(i).cloned().unwrap_or_default() }).collect();
    let fn_name = { let f = s(v, "fn_name"); if f.is_empty() { DEFAULT_fname.to_string() } else { f } };
    let c = Case { fn_name, syms: vec![], no_deps: v.get("no_deps").and_then(|b| b.as_bool()).unwrap_or(false), params, attr: s(v, "attr"), item: s(v, "item") };
    ctx.count_eval();
    match check(&c) {
        Ok(()) => {}
        Err(e) if e.starts_with("HARNESS") => crate::ev::inconclusive(&e),
        Err(e) => ctx.violation(&e, v),
    }
}

// ---------- E2 leg: compile and run the pattern lists through rustc under the positional oracle ----------

fn e2_type_and_value(sym: usize, i: usize) -> (String, String) {
    let v = 11 * (i as i64 + 1);
    match sym {
        5 => ("(i32, i32)".into(), format!("({v}, {})", v + 1)),
        6 | 13 | 14 | 15 | 18 | 19 | 21 | 28 | 31 => ("N".into(), format!("N({v})")),
        32 => ("(N, i32)".into(), format!("(N({v}), {})", v + 1)),
        33 => ("[i32; 2]".into(), format!("[{v}, {}]", v + 1)),
        34 => ("NN".into(), format!("NN(N({v}))")),
        23 => ("(i32, i32)".into(), format!("({v}, {})", v + 1)),
        24 => ("NN".into(), format!("NN(N({v}))")),
        26 => ("[i32; 2]".into(), format!("[{v}, {}]", v + 1)),
        20 | 25 => (format!("S{i}"), format!("S{i} {{ b{i}: {v} }}")),
        7 => ("N2".into(), format!("N2({v}, {})", v + 1)),
        8 => (format!("S{i}"), format!("S{i} {{ b{i}: {v} }}")),
        9 => ("&i32".into(), format!("&{v}")),
        16 => ("(i32, i32, i32)".into(), format!("({v}, {}, {})", v + 1, v + 2)),
        17 => ("N0".into(), format!("N0({v})")),
        _ => ("i32".into(), format!("{v}")),
    }
}

fn e2_src(c: &Case) -> String {
    let fname = c.fn_name.as_str();
    let mut s = String::from("#![allow(warnings)]\nuse crate::rt;\n#[derive(Debug)] pub struct N(pub i32);\n#[derive(Debug)] pub struct N2(pub i32, pub i32);\n#[derive(Debug)] pub struct N0(pub i32);\n#[derive(Debug)] pub struct NN(pub N);\npub struct App;\n");
    let mut ps: Vec<String> = vec![];
    if !c.no_deps {
        ps.push("deps: &impl ::core::any::Any".into());
    }
    let mut args = vec![];
    let mut traces = vec![];
    for (i, (p, sym)) in c.params.iter().zip(c.syms.iter()).enumerate() {
        let (ty, val) = e2_type_and_value(*sym, i);
        let is_struct = matches!(*sym, 8 | 20 | 25);
        if is_struct {
            s.push_str(&format!("#[derive(Debug)] pub struct S{i} {{ pub b{i}: i32 }}\n"));
        }
        let pat = if is_struct { p.pat.replace("S {", &format!("S{i} {{")) } else { p.pat.clone() };
        ps.push(format!("{pat}: {ty}"));
        args.push(val);
        for b in &p.bindings {
            traces.push(format!("format!(\"{{:?}}\", {b})"));
        }
    }
    let attr = if c.no_deps { "pub TheTrait, no_deps" } else { "pub TheTrait" };
    let body_trace = if traces.is_empty() { "String::new()".to_string() } else { format!("[{}].join(\",\")", traces.join(", ")) };
    s.push_str(&format!(
        "#[::entrait::entrait({attr})]\nfn {fname}({}) -> String {{\n    let __r = format!(\"F|{{}}\", {body_trace});\n    rt::trace(__r.clone());\n    __r\n}}\n",
        ps.join(", ")
    ));
    let a = args.join(", ");
    let (direct, via) = if c.no_deps {
        (format!("{fname}({a})"), format!("<::entrait::Impl<App> as TheTrait>::{fname}(&app{}{a})", if a.is_empty() { "" } else { ", " }))
    } else {
        (format!("{fname}(&app{}{a})", if a.is_empty() { "" } else { ", " }), format!("<::entrait::Impl<App> as TheTrait>::{fname}(&app{}{a})", if a.is_empty() { "" } else { ", " }))
    };
    s.push_str(&format!(
        "pub fn run() -> Vec<String> {{\n    let mut fails = vec![];\n    let app = ::entrait::Impl::new(App);\n    let _ = rt::take();\n    let direct = {direct};\n    let t_direct = rt::take();\n    let via = {via};\n    let t_via = rt::take();\n    rt::expect_eq(&mut fails, \"result of the trait call vs the direct call\", &via, &direct);\n    rt::expect_eq(&mut fails, \"trace of the trait call vs the direct call\", &t_via, &t_direct);\n    if t_direct.len() != 1 {{ fails.push(\"HARNESS: direct call did not trace once\".to_string()); }}\n    fails\n}}\n"
    ));
    s
}

/// returns false if a violation was reported
pub fn e2_leg(ctx: &mut Ctx) -> bool {
    use crate::e2::{Batch, Opts};
    // quick: every list of length <= 2 plus a deterministic sample of length-3 lists; thorough: every list of length <= 3
    let mut cases: Vec<Case> = vec![];
    let sample_stride = if ctx.quick() { 17 } else { 1 };
    for len in 0..=3usize {
        let count = NSYM.pow(len as u32);
        for code in 0..count {
            if len == 3 && code % sample_stride != 0 {
                continue;
            }
            let mut syms = vec![];
            let mut x = code;
            for _ in 0..len {
                syms.push(x % NSYM);
                x /= NSYM;
            }
            // raw identifiers are keywords: `r#type` etc. are fine as bindings; skip nothing else
            for no_deps in [false, true] {
                if let Some(c) = build(&syms, no_deps, false, DEFAULT_fname) {
                    cases.push(c);
                }
            }
        }
    }
    let mut batch = Batch::new("c16-e2", Opts { feature_unimock: false, members: 16, ..Default::default() });
    for (i, c) in cases.iter().enumerate() {
        batch.add(&format!("c{i:05}"), e2_src(c));
    }
    let out = batch.build_and_run();
    batch.cleanup();
    super::common::crosscheck_records(ctx, &out.records);
    for (id, d) in &out.compile_failed {
        let i: usize = id[1..].parse().unwrap_or(0);
        ctx.count_eval();
        ctx.violation(
            &format!(
                "a valid parameter pattern list does not compile after expansion: {} -- `{}`",
                d.first().map(|x| format!("{} {}", x.code, x.message)).unwrap_or_default(),
                cases[i].item
            ),
            &json!({"engine": "E2", "src": e2_src(&cases[i]), "patterns": cases[i].params.iter().map(|p| p.pat.clone()).collect::<Vec<_>>()}),
        );
        return false;
    }
    for (id, (status, msg)) in &out.ran {
        let i: usize = id[1..].parse().unwrap_or(0);
        ctx.count_eval();
        if status != "ok" {
            if msg.contains("HARNESS") {
                crate::ev::inconclusive(&format!("client harness fault: {msg}"));
            }
            ctx.violation(
                &format!("arguments are not forwarded positionally ({status}): {msg} -- `{}`", cases[i].item),
                &json!({"engine": "E2", "src": e2_src(&cases[i]), "patterns": cases[i].params.iter().map(|p| p.pat.clone()).collect::<Vec<_>>()}),
            );
            return false;
        }
    }
    ctx.extra.insert("e2_programs_compiled_and_run".into(), json!(cases.len()));
    ctx.extra.insert("e2_scope".into(), json!(if ctx.quick() { "all lists of length <= 2, every 17th list of length 3, both deps modes" } else { "all lists of length <= 3, both deps modes" }));
    true
}
