//! Mechanical port of `$VERIF_REPO/entrait_macros/src/lib.rs` (default /repo) into an ordinary library:
//! nothing of `invoke` or the four entry points is rewritten by hand, so a change to them is followed.
use std::{env, fs, path::PathBuf};

fn main() {
    let repo = env::var("VERIF_REPO").unwrap_or_else(|_| "/repo".to_string());
    println!("cargo:rerun-if-env-changed=VERIF_REPO");
    let src_dir = PathBuf::from(&repo).join("entrait_macros/src");
    let lib = src_dir.join("lib.rs");
    println!("cargo:rerun-if-changed={}", lib.display());
    let text = fs::read_to_string(&lib).expect("read entrait_macros/src/lib.rs");

    let mut out = String::new();
    for line in text.lines() {
        let trimmed = line.trim();
        if trimmed.starts_with("//!")
            || trimmed.starts_with("#![")
            || trimmed == "extern crate proc_macro;"
            || trimmed == "#[proc_macro_attribute]"
        {
            continue;
        }
        if let Some(rest) = trimmed.strip_prefix("mod ") {
            if let Some(name) = rest.strip_suffix(';') {
                let name = name.trim();
                let file = src_dir.join(format!("{name}.rs"));
                let dir_mod = src_dir.join(name).join("mod.rs");
                let path = if file.exists() { file } else { dir_mod };
                println!("cargo:rerun-if-changed={}", path.display());
                out.push_str(&format!("#[path = \"{}\"]\n", path.display()));
                out.push_str(line);
                out.push('\n');
                continue;
            }
        }
        out.push_str(line);
        out.push('\n');
    }
    let out = out.replace("proc_macro::", "proc_macro2::");
    // syn::parse_macro_input!(x as T)  ->  match syn::parse2::<T>(x) { Ok(v) => v, Err(e) => return e.to_compile_error() }
    let mut res = String::new();
    let mut rest = out.as_str();
    let needle = "syn::parse_macro_input!(";
    while let Some(pos) = rest.find(needle) {
        res.push_str(&rest[..pos]);
        let after = &rest[pos + needle.len()..];
        let close = after.find(')').expect("closing paren of parse_macro_input");
        let inner = &after[..close];
        let (var, ty) = inner.split_once(" as ").expect("`x as T` inside parse_macro_input");
        res.push_str(&format!(
            "match syn::parse2::<{}>({}) {{ Ok(v) => v, Err(e) => return e.to_compile_error() }}",
            ty.trim(),
            var.trim()
        ));
        rest = &after[close + 1..];
    }
    res.push_str(rest);
    // every source file of the macro crate is a dependency of this build
    fn walk(dir: &std::path::Path) {
        if let Ok(rd) = fs::read_dir(dir) {
            for e in rd.flatten() {
                let p = e.path();
                if p.is_dir() { walk(&p) } else { println!("cargo:rerun-if-changed={}", p.display()); }
            }
        }
    }
    walk(&src_dir);
    let out_dir = PathBuf::from(env::var("OUT_DIR").unwrap());
    fs::write(out_dir.join("lib_port.rs"), res).unwrap();
}
