#![no_main]
// libFuzzer target: bytes -> choice tape -> the same generator and oracle as ./check C02 (oracle inside the target)
use libfuzzer_sys::fuzz_target;

fuzz_target!(|data: &[u8]| {
    let tape = engine::tape::bytes_to_tape(data);
    if let Some(violation) = engine::props::c02::fuzz_one(&tape) {
        panic!("VIOLATION: {violation}");
    }
});
