//! C04 — dependency bounds bubble up exactly: implemented iff the deps are satisfied (E2, availability probes).
//!
//! For every generated case the client defines a family of probe application types - one satisfying every declared bound,
//! one per declared bound missing exactly that bound, one with an undeclared extra trait only, one `!Sync`, one `Sync + !Send` -
//! each probed bare and inside `Impl<..>`. Availability is a *runtime boolean* obtained by inherent-over-trait method
//! resolution (`impl<T: TheTrait> Probe<T> { fn has(&self) -> bool { true } }` vs a blanket fallback returning false), and is
//! compared with the value computed from the generator's spec.

use crate::e2::{Batch, Opts};
use crate::ev::Ctx;
use crate::tape::Tape;
use serde_json::{json, Value};

// (G<i32> / G<u8>: the same trait path with different generic arguments are different bounds)
// (`H<Out = u8>`: a bound with an associated-type binding; `for<'x> L<'x>`: a higher-ranked bound)
// (`Cmp<D>`: a bound that mentions the dependency parameter itself - named-generic forms only)
// (the last two: different traits whose paths end in the same segment)
const POOL: [&str; 12] = ["B0", "B1", "B2", "B3", "Clone", "G<i32>", "G<u8>", "H<Out = u8>", "for<'x> L<'x>", "Cmp<D>", "pa::Same<u8>", "pb::Same<u8>"];

/// `impl <POOL[b]> for <ty> {..}`
fn impl_line(b: usize, ty: &str) -> String {
    match b {
        7 => format!("impl H for {ty} {{ type Out = u8; }}\n"),
        8 => format!("impl<'x> L<'x> for {ty} {{}}\n"),
        9 => format!("impl Cmp<{ty}> for {ty} {{}}\n"),
        _ => format!("impl {} for {ty} {{}}\n", POOL[b]),
    }
}

fn ident_of(b: usize) -> String {
    POOL[b].chars().filter(|c| c.is_ascii_alphanumeric()).collect()
}

#[derive(Clone, Debug)]
struct FnDecl {
    name: String,
    by_value: bool,
    /// declared bounds (indices into POOL), and how they are written
    bounds: Vec<usize>,
    form: u8, // 0 inline generic, 1 where, 2 impl A + B, 3 split
    /// an additional `?Sized` (imposes nothing; may only be written where the parameter is declared)
    maybe_sized: bool,
    is_async: bool,
    /// bit i: the i-th written bound is parenthesised (`(B0)`, `(for<'x> L<'x>)`, `(?Sized)`)
    paren_mask: u32,
    /// a higher-ranked bound in the where clause is written with the binder on the predicate: `for<'x> D: L<'x>`
    pred_binder: bool,
    /// the bounded type of the where predicates is written in parentheses: `where (D): A + B`
    paren_bounded: bool,
    /// ... in two pairs of parentheses: `where ((D)): A + B`
    paren_double: bool,
}

impl FnDecl {
    fn render(&self, vis: &str) -> String {
        let mut names: Vec<String> = self.bounds.iter().map(|b| POOL[*b].to_string()).collect();
        let amp = if self.by_value { "" } else { "&" };
        let ms = self.maybe_sized && !self.by_value && matches!(self.form, 0 | 2 | 3) && !names.is_empty();
        if ms {
            names.insert(0, "?Sized".to_string());
        }
        for (i, n) in names.iter_mut().enumerate() {
            if self.paren_mask & (1 << i) != 0 {
                *n = format!("({n})");
            }
        }
        // where-clause part of the bounds: `where D: A + B` or, with the binder on the predicate, `where D: A, for<'x> D: L<'x>`
        let where_preds = |part: &[String]| -> String {
            let hr = "for<'x> L<'x>";
            if self.pred_binder && part.iter().any(|n| n == hr) {
                let rest: Vec<&str> = part.iter().filter(|n| *n != hr).map(|n| n.as_str()).collect();
                if rest.is_empty() {
                    "for<'x> D: L<'x>".to_string()
                } else {
                    format!("D: {}, for<'x> D: L<'x>", rest.join(" + "))
                }
            } else if self.paren_bounded && self.paren_double {
                format!("((D)): {}", part.join(" + "))
            } else if self.paren_bounded {
                format!("(D): {}", part.join(" + "))
            } else {
                format!("D: {}", part.join(" + "))
            }
        };
        let q = if self.is_async { "async " } else { "" };
        let joined = names.join(" + ");
        match (self.form, names.is_empty()) {
            (_, true) => {
                if self.form == 2 {
                    format!("{vis}{q}fn {}(deps: {amp}impl Sized) {{}}", self.name)
                } else {
                    format!("{vis}{q}fn {}<D>(deps: {amp}D) {{}}", self.name)
                }
            }
            (0, _) => format!("{vis}{q}fn {}<D: {joined}>(deps: {amp}D) {{}}", self.name),
            (1, _) => format!("{vis}{q}fn {}<D>(deps: {amp}D) where {} {{}}", self.name, where_preds(&names)),
            (2, _) => format!("{vis}{q}fn {}(deps: {amp}{}impl {joined}{}) {{}}", self.name, if amp.is_empty() { "" } else { "(" }, if amp.is_empty() { "" } else { ")" }),
            _ => {
                let k = (names.len() + 1) / 2;
                let (a, b) = names.split_at(k);
                if b.is_empty() {
                    format!("{vis}{q}fn {}<D: {}>(deps: {amp}D) {{}}", self.name, a.join(" + "))
                } else {
                    format!("{vis}{q}fn {}<D: {}>(deps: {amp}D) where {} {{}}", self.name, a.join(" + "), where_preds(b))
                }
            }
        }
    }
}

pub struct Case {
    pub src: String,
    pub summary: String,
    pub nontrivial: bool,
    pub classes: Vec<&'static str>,
    /// `'static` leg: the same item with an application type that satisfies every declared bound but borrows for `'a`;
    /// (program that must be rejected, its `'static` twin that must compile)
    pub static_probe: (String, String),
}

pub fn gen_case(t: &mut Tape, feature_unimock: bool) -> Case {
    let module = t.chance(2, 5);
    let nf = if module { t.range(1, 4) } else { 1 };
    let mut fns = vec![];
    for i in 0..nf {
        let nb = t.weighted(&[2, 3, 3, 2, 1]);
        let mut bounds = vec![];
        for _ in 0..nb {
            let b = t.choose(POOL.len());
            if !bounds.contains(&b) {
                bounds.push(b);
            }
        }
        let form = t.choose(4) as u8;
        if form == 2 {
            // `impl A + B` has no name for the dependency's type
            bounds.retain(|b| *b != 9);
        }
        fns.push(FnDecl { name: format!("f{i}"), by_value: t.chance(1, 5), bounds, form, maybe_sized: t.chance(1, 6), is_async: t.chance(1, 5), paren_mask: if t.chance(1, 4) { t.raw() & 0x3f } else { 0 }, pred_binder: t.flip(), paren_bounded: t.chance(1, 5), paren_double: t.chance(1, 3) });
    }
    // mock settings (never exported here: the derivations stay inert, but they decide which types get the impl)
    let mock_api = t.chance(1, 3);
    let unimock_opt: Option<bool> = match t.weighted(&[3, 2, 2]) {
        0 => None,
        1 => Some(false),
        _ => Some(true),
    };
    let mockall_opt: Option<bool> = match t.weighted(&[4, 1, 1]) {
        0 => None,
        1 => Some(false),
        _ => Some(true),
    };
    let unimock_on = unimock_opt.unwrap_or(feature_unimock);
    let mockable = (unimock_on && mock_api) || mockall_opt == Some(true);
    let mut opts = vec![];
    if mock_api {
        opts.push("mock_api = TheMock".to_string());
    }
    if let Some(u) = unimock_opt {
        opts.push(if u && t.flip() { "unimock".into() } else { format!("unimock = {u}") });
    }
    if let Some(m) = mockall_opt {
        opts.push(if m && t.flip() { "mockall".into() } else { format!("mockall = {m}") });
    }
    // options that must NOT influence which types get the impl
    if t.chance(1, 3) {
        opts.push("?Send".into());
    }
    if t.chance(1, 6) {
        opts.push("export = false".into());
    }
    let perm = t.permutation(opts.len());
    let opts: Vec<String> = perm.into_iter().map(|i| opts[i].clone()).collect();
    let attr = format!("pub TheTrait{}", opts.iter().map(|o| format!(", {o}")).collect::<String>());

    let mut declared: Vec<usize> = vec![];
    for f in &fns {
        for b in &f.bounds {
            if !declared.contains(b) {
                declared.push(*b);
            }
        }
    }
    declared.sort();
    let need_send = fns.iter().any(|f| f.by_value);

    let mut src = String::from("#![allow(warnings)]\nuse crate::rt;\nuse ::core::marker::PhantomData;\n");
    for b in 0..4 {
        src.push_str(&format!("pub trait B{b} {{}}\n"));
    }
    src.push_str("pub trait Extra {}\npub trait G<T> {}\npub trait H { type Out; }\npub trait L<'x> {}\npub trait Cmp<X: ?Sized> {}\npub mod pa { pub trait Same<T> {} }\npub mod pb { pub trait Same<T> {} }\n");
    if module {
        src.push_str(&format!("#[::entrait::entrait({attr})]\npub mod m {{\n    use super::*;\n"));
        for f in &fns {
            src.push_str(&format!("    {}\n", f.render("pub ")));
        }
        src.push_str("}\n");
    } else {
        src.push_str(&format!("#[::entrait::entrait({attr})]\n{}\n", fns[0].render("")));
    }
    src.push_str(
        "struct Probe<T>(PhantomData<T>);\ntrait Fallback { fn has(&self) -> bool { false } }\nimpl<T> Fallback for Probe<T> {}\nimpl<T: TheTrait> Probe<T> { fn has(&self) -> bool { true } }\n",
    );
    // probe family: (type name, traits it has [indices into POOL], extra field making it !Sync / !Send, has Extra)
    struct P {
        name: String,
        has: Vec<usize>,
        field: &'static str,
        sync: bool,
        send: bool,
    }
    let mut fam: Vec<P> = vec![P { name: "XFull".into(), has: declared.clone(), field: "()", sync: true, send: true }];
    for &miss in &declared {
        fam.push(P { name: format!("XMinus{}", ident_of(miss)), has: declared.iter().copied().filter(|b| *b != miss).collect(), field: "()", sync: true, send: true });
    }
    fam.push(P { name: "XAllPool".into(), has: (0..POOL.len()).collect(), field: "()", sync: true, send: true });
    fam.push(P { name: "XNotSync".into(), has: declared.clone(), field: "::core::cell::Cell<u8>", sync: false, send: true });
    fam.push(P { name: "XNotSend".into(), has: declared.clone(), field: "PhantomData<::std::sync::MutexGuard<'static, ()>>", sync: true, send: false });
    let mut expected: Vec<(String, bool)> = vec![];
    for p in &fam {
        let clone = p.has.contains(&4);
        src.push_str(&format!("{}pub struct {}({});\nimpl Extra for {} {{}}\n", if clone { "#[derive(Clone)] " } else { "" }, p.name, p.field, p.name));
        for &b in &p.has {
            if b != 4 {
                src.push_str(&impl_line(b, &p.name));
                src.push_str(&impl_line(b, &format!("::entrait::Impl<{}>", p.name)));
            }
        }
        // (Impl<T> derives Clone when T: Clone, so `Impl<X>: Clone` iff `X: Clone`)
        let bounds_ok = declared.iter().all(|b| p.has.contains(b));
        let auto_ok = p.sync && (!need_send || p.send);
        let qualifies = bounds_ok && auto_ok;
        expected.push((p.name.clone(), qualifies && !mockable));
        expected.push((format!("::entrait::Impl<{}>", p.name), qualifies));
    }
    let static_probe = {
        let mut sp = src.clone();
        let clone = declared.contains(&4);
        sp.push_str(&format!("{}pub struct XBorrowed<'a>(pub &'a u8);\n", if clone { "#[derive(Clone)] " } else { "" }));
        for &b in &declared {
            if b != 4 {
                if b == 9 {
                    sp.push_str("impl<'a> Cmp<XBorrowed<'a>> for XBorrowed<'a> {}\nimpl<'a> Cmp<::entrait::Impl<XBorrowed<'a>>> for ::entrait::Impl<XBorrowed<'a>> {}\n");
                    continue;
                }
                sp.push_str(&impl_line(b, "XBorrowed<'a>").replacen("impl<'x>", "impl<'a, 'x>", 1).replacen("impl H", "impl<'a> H", 1).replacen(&format!("impl {}", POOL[b]), &format!("impl<'a> {}", POOL[b]), 1));
                sp.push_str(&impl_line(b, "::entrait::Impl<XBorrowed<'a>>").replacen("impl<'x>", "impl<'a, 'x>", 1).replacen("impl H", "impl<'a> H", 1).replacen(&format!("impl {}", POOL[b]), &format!("impl<'a> {}", POOL[b]), 1));
            }
        }
        sp.push_str("fn needs<T: TheTrait>(_: &T) {}\n");
        let neg = format!("{sp}pub fn probe<'a>(x: &'a u8) {{ let app = ::entrait::Impl::new(XBorrowed(x)); needs(&app); }}\npub fn run() -> Vec<String> {{ vec![] }}\n");
        let pos = format!("{sp}pub fn probe(x: &'static u8) {{ let app = ::entrait::Impl::new(XBorrowed(x)); needs(&app); }}\npub fn run() -> Vec<String> {{ vec![] }}\n");
        (neg, pos)
    };
    src.push_str("pub fn run() -> Vec<String> {\n    let mut fails = vec![];\n");
    for (ty, want) in &expected {
        src.push_str(&format!(
            "    {{ let got = Probe::<{ty}>(PhantomData).has(); if got != {want} {{ fails.push(format!(\"`{ty}: TheTrait` is {{}} but should be {want}\", got)); }} }}\n"
        ));
    }
    src.push_str("    fails\n}\n");
    let mut classes = vec![];
    if fns.iter().any(|f| f.paren_bounded && !f.bounds.is_empty() && (f.form == 1 || (f.form == 3 && f.bounds.len() >= 2))) {
        classes.push("parenthesised_bounded_type_in_where_predicate");
    }
    if fns.iter().any(|f| f.bounds.contains(&9)) {
        classes.push("bound_mentions_the_dependency_parameter");
    }
    {
        let all: Vec<usize> = fns.iter().flat_map(|f| f.bounds.iter().copied()).collect();
        if all.contains(&10) && all.contains(&11) {
            classes.push("two_traits_with_the_same_last_path_segment");
        }
    }
    if fns.iter().any(|f| f.paren_mask != 0 && !f.bounds.is_empty()) {
        classes.push("parenthesised_bound");
    }
    if fns.iter().any(|f| f.pred_binder && f.bounds.contains(&8) && (f.form == 1 || (f.form == 3 && f.bounds.len() >= 2))) {
        classes.push("higher_ranked_binder_on_where_predicate_or_split");
    }
    if mockable {
        classes.push("mockable");
    } else if mock_api || unimock_opt.is_some() || mockall_opt.is_some() {
        classes.push("mock_options_but_not_mockable");
    }
    if need_send {
        classes.push("by_value_receiver");
    }
    let differing = module && fns.windows(2).any(|w| w[0].bounds != w[1].bounds);
    if differing {
        classes.push("module_fns_with_different_bounds");
    }
    let split = fns.iter().any(|f| f.form == 3 && f.bounds.len() >= 2);
    let nontrivial = declared.len() >= 2 || split || differing;
    let summary = format!(
        "#[entrait({attr})] {} => declared {:?}, mockable={mockable}, need_send={need_send} [{}]",
        fns.iter().map(|f| f.render("")).collect::<Vec<_>>().join(" / "),
        declared.iter().map(|b| POOL[*b]).collect::<Vec<_>>(),
        if feature_unimock { "feature unimock" } else { "no features" }
    );
    Case { src, summary, nontrivial, classes, static_probe }
}


/// the same program with the attribute line removed and without anything that names `TheTrait`
fn twin_of(src: &str) -> String {
    let t: String = src.lines().filter(|l| !l.starts_with("#[::entrait::entrait(") && !l.contains("TheTrait")).collect::<Vec<_>>().join("\n") + "\npub fn run() -> Vec<String> { vec![] }\n";
    t.replace("pub fn run() -> Vec<String> {\n    let mut fails = vec![];\n    fails\n}", "")
}

fn run_single(name: &str, feature_unimock: bool, src: &str) -> Option<(String, String)> {
    let mut b = Batch::new(name, Opts { feature_unimock, members: 1, ..Default::default() });
    b.add("c00000", src.to_string());
    let out = b.build_and_run();
    b.cleanup();
    if !out.compile_failed.is_empty() {
        return None;
    }
    out.ran.get("c00000").cloned()
}

pub const TAPE_LEN: usize = 64;

pub fn run(ctx: &mut Ctx) {
    ctx.rule = "cases = entraited fns / modules of 1..4 fns declaring 0..4 dependency bounds from {B0..B3, Clone, G<i32>, G<u8>, H<Out = u8>, for<'x> L<'x>} inline, in a where clause, as `impl A + B`, split, or spread over \
                the fns of a module, by reference or by value, x mock settings {none, mock_api, unimock[=b], mockall[=b]} x unrelated options {?Send, export = false} x both cargo feature settings; each program probes \
                `X: TheTrait` and `Impl<X>: TheTrait` at run time for a family of types (full, one per missing bound, all-pool, !Sync, Sync+!Send) and compares with the spec; \
                non-trivial = >=2 declared bounds, a split declaration, or module fns with different bounds (every case has probes expected true and probes expected false); distinct = distinct program text"
        .into();
    {
        let head = "#![allow(warnings)]\npub trait Dep<'a> { fn d(&self) -> &'a u8; }\npub fn run() -> Vec<String> { vec![] }\n";
        let item = "fn the_fn<'a, D: Dep<'a>>(deps: &D, x: &'a str) -> &'a u8 { deps.d() }";
        if !super::common::probe_open_findings(
            ctx,
            "C04",
            &[("deps-bound-names-a-lifetime-of-the-fn", format!("{head}#[::entrait::entrait(TheTrait)]\n{item}\n"), format!("{head}{item}\n"), &["E0261"])],
        ) {
            return;
        }
    }
    ctx.assumptions.push("`'static` cannot be probed at run time (trait selection ignores lifetimes): it is a compile probe on the first 120 (thorough: 600) cases per feature setting - `Impl<XBorrowed<'a>>: TheTrait` must be rejected, the `'static` twin must compile; mock derivations stay un-exported (inert) here, C10/C11 observe the mock type".into());
    let n = ctx.n(1500, 12000) as usize;
    for feature_unimock in [false, true] {
        let tapes = crate::drive::gen_tapes(ctx.seed, 400 + feature_unimock as u64, n, TAPE_LEN);
        let mut batch = Batch::new(&format!("c04-{}", if feature_unimock { "unimock" } else { "plain" }), Opts { feature_unimock, members: 16, ..Default::default() });
        let cases: Vec<Case> = tapes.iter().map(|tp| gen_case(&mut Tape::new(tp), feature_unimock)).collect();
        for (i, c) in cases.iter().enumerate() {
            batch.add(&format!("c{i:05}"), c.src.clone());
        }
        let out = batch.build_and_run();
        batch.cleanup();
        super::common::crosscheck_records(ctx, &out.records);
        for (id, (status, msg)) in &out.ran {
            let i: usize = id[1..].parse().unwrap_or(0);
            let case = &cases[i];
            if msg.contains("__REMOVED__") {
                continue;
            }
            ctx.count_eval();
            for c in &case.classes {
                ctx.class(c);
            }
            if status == "ok" {
                if case.nontrivial {
                    ctx.nontrivial(&case.src);
                    ctx.sample(|| json!(case.summary));
                }
                continue;
            }
            // shrink: zero tape blocks while the case keeps failing
            let mut best = (tapes[i].clone(), case.src.clone(), msg.clone(), case.summary.clone());
            let mut budget = 20;
            let mut block = TAPE_LEN / 2;
            while block >= 1 && budget > 0 {
                let mut j = 0;
                while j < best.0.len() && budget > 0 {
                    let end = (j + block).min(best.0.len());
                    if best.0[j..end].iter().any(|v| *v != 0) {
                        let mut cand = best.0.clone();
                        cand[j..end].iter_mut().for_each(|v| *v = 0);
                        let c = gen_case(&mut Tape::new(&cand), feature_unimock);
                        budget -= 1;
                        if let Some((st, m)) = run_single("c04-shrink", feature_unimock, &c.src) {
                            if st != "ok" {
                                best = (cand, c.src, m, c.summary);
                            }
                        }
                    }
                    j += block;
                }
                block /= 2;
            }
            ctx.violation(
                &format!("availability of the generated impl differs from the declared bounds: {} -- in {}", best.2, best.3),
                &json!({"engine": "E2", "feature_unimock": feature_unimock, "src": best.1, "summary": best.3}),
            );
            return;
        }
        if !static_leg(ctx, feature_unimock, &cases) {
            return;
        }
        // programs that do not compile are judged after the runnable ones, against their attribute-free twin
        let failed: Vec<(String, String, String, String)> = out
            .compile_failed
            .iter()
            .map(|(id, d)| {
                let i: usize = id[1..].parse().unwrap_or(0);
                (cases[i].summary.clone(), cases[i].src.clone(), twin_of(&cases[i].src), d.first().map(|x| format!("{} {}", x.code, x.message)).unwrap_or_default())
            })
            .collect();
        let (violations, faults) = super::common::judge_compile_failures(ctx, "c04", feature_unimock, &failed, "the generated impl does not type-check for the declared bounds");
        if violations > 0 {
            return;
        }
        if faults > 0 {
            crate::ev::inconclusive(&format!("{faults} C04 programs have a twin that does not compile (generator fault); first: {:?}", failed.first().map(|f| (&f.0, &f.3))));
        }
    }
}

/// `'static`: for the first cases of the batch, `Impl<XBorrowed<'a>>: TheTrait` must be rejected for a caller-chosen `'a`
/// (compile probe; the twin with `'static` must compile, otherwise the probe itself is at fault)
fn static_leg(ctx: &mut Ctx, feature_unimock: bool, cases: &[Case]) -> bool {
    let k = if ctx.quick() { 120 } else { 600 }.min(cases.len());
    let mut batch = Batch::new(&format!("c04-static-{}", if feature_unimock { "unimock" } else { "plain" }), Opts { feature_unimock, members: 16, check_only: true, ..Default::default() });
    for (i, c) in cases.iter().take(k).enumerate() {
        batch.add(&format!("n{i:05}"), c.static_probe.0.clone());
        batch.add(&format!("p{i:05}"), c.static_probe.1.clone());
    }
    let out = batch.build_and_run();
    batch.cleanup();
    for (i, c) in cases.iter().take(k).enumerate() {
        let (nid, pid) = (format!("n{i:05}"), format!("p{i:05}"));
        if out.compile_failed.contains_key(&pid) {
            // the program proper (same item, same bounds) is judged by the main leg; nothing to learn from this probe
            ctx.class("static_probe:twin_does_not_compile");
            continue;
        }
        ctx.count_eval();
        match out.compile_failed.get(&nid) {
            Some(d) => {
                let lifetime = d.iter().any(|x| ["E0521", "E0597", "E0759", "E0477", "E0310", "E0311", "E0716"].contains(&x.code.as_str()) || x.message.contains("lifetime") || x.message.contains("borrowed data escapes") || x.message.contains("does not live long enough"));
                if !lifetime {
                    crate::ev::inconclusive(&format!("'static probe failed with an unrelated error: {} -- {}", d.first().map(|x| x.rendered.clone()).unwrap_or_default(), c.summary));
                }
                ctx.class("static_probe:non_static_app_rejected");
            }
            None => {
                let mut b = Batch::new("c04-static-single", Opts { feature_unimock, members: 1, check_only: true, ..Default::default() });
                b.add("c00000", c.static_probe.0.clone());
                let o = b.build_and_run();
                b.cleanup();
                if o.compile_failed.is_empty() {
                    ctx.violation(
                        &format!("the generated impl exists for an application type that is not `'static` (`Impl<XBorrowed<'a>>: TheTrait` accepted for a caller-chosen 'a) -- in {}", c.summary),
                        &json!({"engine": "E2", "kind": "static", "feature_unimock": feature_unimock, "src": c.static_probe.0, "summary": c.summary}),
                    );
                    return false;
                }
                ctx.class("static_probe:non_static_app_rejected");
            }
        }
    }
    true
}

pub fn replay(ctx: &mut Ctx, v: &Value) {
    let feature_unimock = v.get("feature_unimock").and_then(|b| b.as_bool()).unwrap_or(false);
    ctx.count_eval();
    if super::s(v, "kind") == "static" {
        let mut b = Batch::new("c04-static-replay", Opts { feature_unimock, members: 1, check_only: true, ..Default::default() });
        b.add("c00000", super::s(v, "src"));
        let o = b.build_and_run();
        b.cleanup();
        if o.compile_failed.is_empty() {
            ctx.violation("the generated impl exists for an application type that is not `'static`", v);
        }
        return;
    }
    match run_single("c04-replay", feature_unimock, &super::s(v, "src")) {
        None => ctx.violation("replayed program does not compile (declared bound dropped?)", v),
        Some((st, msg)) => {
            if st != "ok" {
                ctx.violation(&format!("availability of the generated impl differs from the declared bounds: {msg}"), v);
            }
        }
    }
}
