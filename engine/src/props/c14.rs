//! C14 — static delegation is zero-cost: no boxing, no dynamic dispatch, no allocation (E2 allocation counter + token scan).
//!
//! Each program builds a call chain of depth 1..6 of entraited fns (sync/async, single fns and module fns) ending in a plain
//! fn, a statically delegated leaf trait, a statically delegated implementation block or a `no_deps` fn; every body performs a known number
//! of heap allocations. A mirror chain of plain fns with the same bodies is the reference: the number of allocations counted
//! by a `#[global_allocator]` around the trait chain must equal the count around the plain chain (same build, same thread,
//! after a warm-up call). The recorded expansions must not contain `dyn`/`Box` tokens that the input did not contain.

use crate::e2::{Batch, Opts};
use crate::ev::Ctx;
use crate::tape::Tape;
use crate::tok;
use serde_json::{json, Value};

pub struct Case {
    pub src: String,
    pub summary: String,
    pub nontrivial: bool,
    pub classes: Vec<&'static str>,
}

pub fn gen_case(t: &mut Tape) -> Case {
    let depth = t.range(1, 6);
    let any_async = t.chance(1, 2);
    // level i is async iff i < first_sync (callers of an async fn must be async)
    let first_sync = if any_async { t.range(1, depth) } else { 0 };
    // an optimisation hint on the trait methods / entraited fns (it must not change what the delegation costs)
    let hint = *t.pick(&["", "", "", "#[cold] ", "#[inline] ", "#[inline(never)] ", "#[inline(always)] "]);
    let end = t.choose(4); // 0 plain entraited fn, 1 leaf trait (static Impl<T> delegation), 2 impl block (static), 3 `no_deps` fn
    let end_async = any_async && first_sync == depth && t.flip();
    let mut src = String::from("#![allow(warnings)]\nuse crate::rt;\npub struct App;\n");
    let is_async = |i: usize| i < first_sync;
    // the entraited chain (`?Send` has to be given on every async level or on none: a Send future cannot await a non-Send one)
    let chain_no_send = any_async && t.chance(1, 4);
    let mut lts: Vec<bool> = vec![];
    for i in 0..depth {
        let a = is_async(i);
        let next_async = if i + 1 < depth { is_async(i + 1) } else { end_async };
        let (next_trait, next_call) = if i + 1 < depth { (format!("F{}", i + 1), format!("deps.f{}(x + 1@TAG{}@)", i + 1, i + 1)) } else {
            match end {
                0 => ("Sized".to_string(), "x + 1".to_string()),
                1 => ("Leaf".to_string(), "deps.leaf(x + 1)".to_string()),
                2 => ("Repo".to_string(), "deps.get(x + 1)".to_string()),
                _ => ("Leaf0".to_string(), "deps.leaf0(x + 1)".to_string()),
            }
        };
        let aw = if next_async && !(i + 1 >= depth && end == 0) { ".await" } else { "" };
        let yield_ = if a { "rt::yield_once().await; " } else { "" };
        let body = format!("{{ let v = vec![x, x]; {yield_}let r = {next_call}{aw}; r + v[1] }}");
        let q = if a { "async " } else { "" };
        let in_mod = t.chance(1, 4);
        let deps_form = if t.flip() { format!("deps: &impl {next_trait}") } else { "deps: &D".to_string() };
        // some levels declare an explicit lifetime parameter (a borrowed argument that is only looked at)
        let named_lt = t.chance(1, 3);
        lts.push(named_lt);
        let g = match (deps_form == "deps: &D", named_lt) {
            (true, true) => format!("<'a, D: {next_trait}>"),
            (true, false) => format!("<D: {next_trait}>"),
            (false, true) => "<'a>".to_string(),
            (false, false) => String::new(),
        };
        let extra_param = if named_lt { ", tag: &'a str" } else { "" };
        let body = if named_lt { body.replacen("let r =", "let _n = tag.len(); let r =", 1) } else { body };
        if in_mod {
            src.push_str(&format!("#[::entrait::entrait(pub F{i}{})]\npub mod m{i} {{\n    use super::*;\n    pub {q}fn f{i}{g}({deps_form}, x: u64{extra_param}) -> u64 {body}\n    pub fn unused{i}(_deps: &impl Sized) {{}}\n}}\n", if a && chain_no_send { ", ?Send" } else { "" }));
        } else {
            let opt = if a && chain_no_send { ", ?Send" } else if t.chance(1, 5) { ", export = false" } else if t.chance(1, 6) { ", mock_api = TheMock, unimock = false" } else { "" };
            src.push_str(&format!("#[::entrait::entrait(pub F{i}{opt})]\n{hint}{q}fn f{i}{g}({deps_form}, x: u64{extra_param}) -> u64 {body}\n"));
        }
    }
    let eq = if end_async { "async " } else { "" };
    let ey = if end_async { "rt::yield_once().await; " } else { "" };
    match end {
        1 => src.push_str(&format!(
            "#[::entrait::entrait]\npub trait Leaf {{ {hint}{eq}fn leaf(&self, x: u64) -> u64; }}\nimpl Leaf for App {{ {eq}fn leaf(&self, x: u64) -> u64 {{ let v = vec![x]; {ey}v[0] * 2 }} }}\n"
        )),
        2 => src.push_str(&format!(
            "#[::entrait::entrait(RepoImpl, delegate_by = DelegateRepo)]\npub trait Repo {{ {hint}{eq}fn get(&self, x: u64) -> u64; }}\npub struct MyRepo;\n#[::entrait::entrait]\nimpl RepoImpl for MyRepo {{ pub {eq}fn get(_deps: &impl Sized, x: u64) -> u64 {{ let v = vec![x]; {ey}v[0] * 2 }} }}\nimpl DelegateRepo<Self> for App {{ type Target = MyRepo; }}\n"
        )),
        3 => {
            let in_mod = t.chance(1, 3);
            let f = format!("{eq}fn leaf0(x: u64) -> u64 {{ let v = vec![x]; {ey}v[0] * 2 }}");
            let opt = if end_async && chain_no_send { ", ?Send" } else { "" };
            if in_mod {
                src.push_str(&format!("#[::entrait::entrait(pub Leaf0, no_deps{opt})]\npub mod lm {{\n    use super::*;\n    pub {f}\n}}\n"));
            } else {
                src.push_str(&format!("#[::entrait::entrait(pub Leaf0, no_deps{opt})]\n{f}\n"));
            }
        }
        _ => {}
    }
    // the plain mirror chain
    for i in 0..depth {
        let a = is_async(i);
        let next_async = if i + 1 < depth { is_async(i + 1) } else { end_async };
        let next_call = if i + 1 < depth { format!("g{}(x + 1@TAG{}@)", i + 1, i + 1) } else if end == 0 { "x + 1".to_string() } else { "g_end(x + 1)".to_string() };
        let aw = if next_async && !(i + 1 >= depth && end == 0) { ".await" } else { "" };
        let yield_ = if a { "rt::yield_once().await; " } else { "" };
        let q = if a { "async " } else { "" };
        let (gl, gp, gb) = if lts[i] { ("<'a>", ", tag: &'a str", "let _n = tag.len(); ") } else { ("", "", "") };
        src.push_str(&format!("{q}fn g{i}{gl}(x: u64{gp}) -> u64 {{ let v = vec![x, x]; {yield_}{gb}let r = {next_call}{aw}; r + v[1] }}\n"));
    }
    if end != 0 {
        src.push_str(&format!("{eq}fn g_end(x: u64) -> u64 {{ let v = vec![x]; {ey}v[0] * 2 }}\n"));
    }
    for (k, has) in lts.iter().enumerate() {
        src = src.replace(&format!("@TAG{k}@"), if *has { ", \"tag\"" } else { "" });
    }
    let top_tag = if lts[0] { ", \"tag\"" } else { "" };
    // in addition to the chain: an (a)sync fn whose output type mentions an explicit lifetime parameter of the fn
    let pick = t.weighted(&[2, 2, 1]); // 0 none, 1 async, 2 sync
    let pick_mut = pick > 0 && t.flip();
    if pick > 0 {
        let q = if pick == 1 { "async " } else { "" };
        let y = if pick == 1 { "crate::rt::yield_once().await; " } else { "" };
        let in_mod = t.chance(1, 3);
        // the borrow may be exclusive: `&'a mut [u64]` in, `&'a mut u64` out
        let (m, mm) = if pick_mut { ("mut ", "&mut ") } else { ("", "&") };
        let f = format!("{q}fn pick<'a>(_deps: &impl ::core::any::Any, xs: &'a {m}[u64]) -> &'a {m}u64 {{ let v = vec![xs[0]]; {y}{mm}xs[(v[0] % 2) as usize] }}");
        if in_mod {
            src.push_str(&format!("#[::entrait::entrait(pub Pick)]\npub mod pm {{\n    pub {f}\n}}\nuse pm::pick;\n"));
        } else {
            src.push_str(&format!("#[::entrait::entrait(pub Pick)]\n{f}\n"));
        }
        src.push_str(&format!("{q}fn gpick<'a>(xs: &'a {m}[u64]) -> &'a {m}u64 {{ let v = vec![xs[0]]; {y}{mm}xs[(v[0] % 2) as usize] }}\n"));
    }
    // ... and a fn with a relaxed argument-position `impl Trait` behind a reference (monomorphised per caller type, no vtable)
    let describe = t.weighted(&[2, 1, 1]); // 0 none, 1 sync, 2 async
    if describe > 0 {
        let q = if describe == 2 { "async " } else { "" };
        let y = if describe == 2 { "crate::rt::yield_once().await; " } else { "" };
        // (a Send future may only hold `&T` / `&mut T` for `T: Sync` / `T: Send`)
        let ss = if describe == 2 { " + Send + Sync" } else { "" };
        let f = format!("{q}fn describe(_deps: &impl ::core::any::Any, value: &(impl ::core::fmt::Debug + ?Sized{ss}), other: &mut (impl ::core::fmt::Debug + ?Sized{ss})) -> u64 {{ let v = vec![1u64]; {y}v[0] + ::core::any::type_name_of_val(value).len() as u64 + 100 * ::core::any::type_name_of_val(other).len() as u64 }}");
        if t.chance(1, 3) {
            src.push_str(&format!("#[::entrait::entrait(pub Describe)]\npub mod dm {{\n    pub {f}\n}}\nuse dm::describe;\n"));
        } else {
            src.push_str(&format!("#[::entrait::entrait(pub Describe)]\n{f}\n"));
        }
    }
    // ... and an entraited trait with methods that take `self` by value (default delegation to `Self`)
    let byval = t.weighted(&[2, 1, 1, 1]); // 0 none, 1 `?Send`, 2 `Send` supertrait, 3 neither
    if byval > 0 {
        let (opt, sup) = if byval == 1 { ("?Send", "") } else if byval == 2 { ("", ": Send") } else { ("", "") };
        src.push_str(&format!(
            "#[::entrait::entrait({opt})]\npub trait ByVal{sup} {{ {hint}async fn consume(self, x: u64) -> u64; {hint}fn consume_sync(self, x: u64) -> u64; }}\n#[derive(Clone, Copy)] pub struct Bv;\n\
             impl ByVal for Bv {{ async fn consume(self, x: u64) -> u64 {{ let v = vec![x, x]; rt::yield_once().await; v[1] + 1 }} fn consume_sync(self, x: u64) -> u64 {{ let v = vec![x]; v[0] + 2 }} }}\n"
        ));
    }
    let top_async = is_async(0);
    let call = |e: &str| if top_async { format!("rt::block_on_pinned({e})") } else { e.to_string() };
    src.push_str(&format!(
        "pub fn run() -> Vec<String> {{\n    let mut fails = vec![];\n    let app = ::entrait::Impl::new(App);\n    // warm-up (lazy statics, thread-locals)\n    let w1 = {};\n    let w2 = {};\n    let a0 = rt::allocs();\n    let plain = {};\n    let a1 = rt::allocs();\n    let via = {};\n    let a2 = rt::allocs();\n    rt::expect_eq(&mut fails, \"result of the trait chain vs the plain chain\", &via, &plain);\n    if a1 - a0 == 0 {{ fails.push(\"HARNESS: the plain chain did not allocate\".to_string()); }}\n    rt::expect_eq(&mut fails, \"heap allocations of the trait chain vs the plain chain\", &(a2 - a1), &(a1 - a0));\n{}    fails\n}}\n",
        call(&format!("g0(5{top_tag})")),
        call(&format!("app.f0(5{top_tag})")),
        call(&format!("g0(7{top_tag})")),
        call(&format!("app.f0(7{top_tag})")),
        if pick > 0 || byval > 0 || describe > 0 {
            let c = |e: &str| if pick == 1 { format!("rt::block_on_pinned({e})") } else { e.to_string() };
            let byval_src = if byval > 0 {
                "    let _w = (rt::block_on_pinned(ByVal::consume(Bv, 1)), rt::block_on_pinned(ByVal::consume(::entrait::Impl::new(Bv), 1)), ByVal::consume_sync(Bv, 1), ByVal::consume_sync(::entrait::Impl::new(Bv), 1));\n    let c0 = rt::allocs();\n    let v_plain = (rt::block_on_pinned(ByVal::consume(Bv, 5)), ByVal::consume_sync(Bv, 5));\n    let c1 = rt::allocs();\n    let v_via = (rt::block_on_pinned(ByVal::consume(::entrait::Impl::new(Bv), 5)), ByVal::consume_sync(::entrait::Impl::new(Bv), 5));\n    let c2 = rt::allocs();\n    rt::expect_eq(&mut fails, \"by-value trait methods: result\", &v_via, &v_plain);\n    rt::expect_eq(&mut fails, \"by-value trait methods: heap allocations through Impl<T> vs direct\", &(c2 - c1), &(c1 - c0));\n".to_string()
            } else {
                String::new()
            };
            let describe_src = if describe > 0 {
                let c = |e: &str| if describe == 2 { format!("rt::block_on_pinned({e})") } else { e.to_string() };
                format!(
                    "    let mut o1 = 7u16;\n    let _w = ({}, {});\n    let d0 = rt::allocs();\n    let d_plain = {};\n    let d1 = rt::allocs();\n    let d_via = {};\n    let d2 = rt::allocs();\n    rt::expect_eq(&mut fails, \"fn with `&(impl Trait + ?Sized)` parameters: result (carries the instantiated type names)\", &d_via, &d_plain);\n    rt::expect_eq(&mut fails, \"fn with `&(impl Trait + ?Sized)` parameters: heap allocations through the trait vs direct\", &(d2 - d1), &(d1 - d0));\n",
                    c("describe(&app, \"str\", &mut o1)"),
                    c("app.describe(\"str\", &mut o1)"),
                    c("describe(&app, \"str\", &mut o1)"),
                    c("app.describe(\"str\", &mut o1)")
                )
            } else {
                String::new()
            };
            let byval_src = byval_src + &describe_src;
            let xr = if pick_mut { "&mut xs" } else { "&xs" };
            if pick == 0 {
                byval_src
            } else {
            byval_src + &format!(
                "    let mut xs = [4u64, 9u64];\n    let _w = (*{}, *{});\n    let b0 = rt::allocs();\n    let p_plain = *{};\n    let b1 = rt::allocs();\n    let p_via = *{};\n    let b2 = rt::allocs();\n    rt::expect_eq(&mut fails, \"borrowed-output fn: result\", &p_via, &p_plain);\n    rt::expect_eq(&mut fails, \"borrowed-output fn: heap allocations through the trait vs direct\", &(b2 - b1), &(b1 - b0));\n",
                c(&format!("gpick({xr})")),
                c(&format!("app.pick({xr})")),
                c(&format!("gpick({xr})")),
                c(&format!("app.pick({xr})"))
            )
            }
        } else {
            String::new()
        }
    ));
    let mut classes = vec![["end:plain_fn", "end:leaf_trait", "end:impl_block", "end:no_deps_fn"][end]];
    if !hint.is_empty() {
        classes.push(match hint.trim() {
            "#[cold]" => "hint:cold",
            "#[inline]" => "hint:inline",
            "#[inline(never)]" => "hint:inline_never",
            _ => "hint:inline_always",
        });
    }
    if any_async {
        classes.push("async");
    }
    if depth >= 2 {
        classes.push("depth>=2");
    }
    if lts.iter().any(|b| *b) {
        classes.push("explicit_lifetime_parameter");
    }
    if pick > 0 {
        classes.push("output_borrows_through_lifetime_parameter");
    }
    if pick_mut {
        classes.push("exclusive_borrow_in_and_out");
    }
    if byval > 0 {
        classes.push("trait_methods_taking_self_by_value");
    }
    if describe > 0 {
        classes.push("relaxed_impl_trait_reference_parameters");
    }
    let summary = format!("chain depth {depth}, async levels {first_sync}, end {}{}", ["entraited fn", "statically delegated leaf trait", "statically delegated impl block", "`no_deps` fn"][end], if end_async { " (async)" } else { "" });
    Case { src, summary, nontrivial: any_async || depth >= 2, classes }
}

fn run_single(name: &str, src: &str) -> Result<(String, String), String> {
    let mut b = Batch::new(name, Opts { feature_unimock: false, members: 1, ..Default::default() });
    b.add("c00000", src.to_string());
    let out = b.build_and_run();
    b.cleanup();
    if let Some(d) = out.compile_failed.values().next() {
        return Err(d.first().map(|x| x.rendered.clone()).unwrap_or_default());
    }
    out.ran.get("c00000").cloned().ok_or_else(|| "no result".to_string())
}

pub const TAPE_LEN: usize = 48;

pub fn run(ctx: &mut Ctx) {
    ctx.rule = "cases = call chains of depth 1..6 of entraited fns (single fns and module fns, deps as `&impl Next` or `<D: Next>`), a prefix of which is async, ending in a plain entraited fn, a \
                statically delegated leaf trait (`#[entrait] trait`) or a statically delegated implementation block, each body allocating a known number of times; oracle: allocations counted by a \
                global allocator around the trait chain == around a mirror chain of plain fns, results equal; plus: recorded expansions contain no `dyn`/`Box` token that the input lacks; \
                non-trivial = async or depth >= 2; distinct = distinct program text"
        .into();
    ctx.assumptions.push("detects allocation and `dyn`/`Box` tokens, not every conceivable form of dynamic dispatch; debug build (opt-level 0), so nothing is optimised away on either side".into());
    let n = ctx.n(1000, 10000) as usize;
    let tapes = crate::drive::gen_tapes(ctx.seed, 1400, n, TAPE_LEN);
    let cases: Vec<Case> = tapes.iter().map(|tp| gen_case(&mut Tape::new(tp))).collect();
    let mut batch = Batch::new("c14", Opts { feature_unimock: false, members: 16, ..Default::default() });
    for (i, c) in cases.iter().enumerate() {
        batch.add(&format!("c{i:05}"), c.src.clone());
    }
    let out = batch.build_and_run();
    batch.cleanup();
    super::common::crosscheck_records(ctx, &out.records);
    // token scan of the real expansions
    let mut scanned = 0u64;
    for r in &out.records {
        let Some(o) = &r.output else { continue };
        for word in ["dyn", "Box"] {
            if tok::count_ident(o, word) > tok::count_ident(&r.input, word) {
                ctx.violation(
                    &format!("static delegation generated a `{word}` token: #[{}({})] on `{}`", r.macro_name, tok::render(&r.attr), super::c20::truncate(&tok::render(&r.input), 200)),
                    &json!({"engine": "E2", "kind": "token_scan", "macro": r.macro_name, "attr": tok::render(&r.attr), "item": tok::render(&r.input)}),
                );
                return;
            }
        }
        scanned += 1;
    }
    ctx.extra.insert("expansions_scanned_for_dyn_box".into(), json!(scanned));
    if let Some((id, d)) = out.compile_failed.iter().next() {
        let i: usize = id[1..].parse().unwrap_or(0);
        crate::ev::inconclusive(&format!("C14 program does not compile: {}\n{}", cases[i].summary, d.first().map(|x| x.rendered.clone()).unwrap_or_default()));
    }
    for (id, (status, msg)) in &out.ran {
        let i: usize = id[1..].parse().unwrap_or(0);
        let case = &cases[i];
        ctx.count_eval();
        for c in &case.classes {
            ctx.class(c);
        }
        if status == "ok" {
            if case.nontrivial {
                ctx.nontrivial(&case.src);
                ctx.sample(|| json!(case.summary));
            }
            continue;
        }
        if msg.contains("HARNESS") {
            crate::ev::inconclusive(&format!("client harness fault: {msg}\n{}", case.src));
        }
        ctx.violation(
            &format!("calling through the generated traits is not allocation-free ({status}): {msg} -- {}", case.summary),
            &json!({"engine": "E2", "src": case.src, "summary": case.summary}),
        );
        return;
    }
}

pub fn replay(ctx: &mut Ctx, v: &Value) {
    ctx.count_eval();
    if super::s(v, "kind") == "token_scan" {
        match crate::e1::outcome(&super::s(v, "macro"), &super::s(v, "attr"), &super::s(v, "item")) {
            Ok(crate::e1::Outcome::Accepted(o, _)) => {
                let input = tok::toks_of_src(&super::s(v, "item")).unwrap_or_default();
                for word in ["dyn", "Box"] {
                    if tok::count_ident(&o, word) > tok::count_ident(&input, word) {
                        ctx.violation(&format!("static delegation generated a `{word}` token"), v);
                    }
                }
            }
            _ => {}
        }
        return;
    }
    match run_single("c14-replay", &super::s(v, "src")) {
        Err(e) => crate::ev::inconclusive(&format!("replayed program does not compile: {e}")),
        Ok((st, msg)) => {
            if st != "ok" {
                ctx.violation(&format!("calling through the generated traits is not allocation-free: {msg}"), v);
            }
        }
    }
}
