//! C11 — unimock wiring: named mock API, and un-mocked calls reach the real function (E2, `unimock` feature configuration).
//!
//! (a) the client names the API exactly as requested (`TheMock`, `m::TheMock::f`, `TheMock::m`) - it compiles;
//! (b) a clause matching the call's values in declared order answers, a clause matching a *rotation* of the (pairwise
//!     distinct) values panics: argument order is observed, not assumed;
//! (c) on `Unimock::new_partial(())` a generic-deps / no_deps fn runs the original with the mock object as deps: result and
//!     trace equal the direct call `f(&unimock, ..)`, per-fn tags expose a mis-paired `unmock_with`;
//! (d) concrete-deps fns and entraited traits are not un-mockable: the same call panics.

use crate::e2::{Batch, Opts};
use crate::ev::Ctx;
use crate::prog::{Param, PK, VT};
use crate::tape::Tape;
use serde_json::{json, Value};

pub struct Case {
    pub src: String,
    pub twin: String,
    pub summary: String,
    pub nontrivial: bool,
    pub classes: Vec<&'static str>,
}

const MATCHABLE: [VT; 5] = [VT::I32, VT::I32, VT::U8, VT::Str, VT::Bool];

fn gen_params(t: &mut Tape) -> Vec<Param> {
    let n = t.weighted(&[1, 3, 4, 3, 2, 1]);
    let mut out: Vec<Param> = vec![];
    for i in 0..n {
        let vt = if i > 0 && t.chance(1, 2) { out[i - 1].vt } else { *t.pick(&MATCHABLE) };
        // destructured parameters (matched with `_` in clauses; their values show in the un-mocked trace)
        let (vt, pk) = if t.chance(1, 8) { (*t.pick(&[VT::Pair, VT::NewT, VT::St]), PK::Destructure) } else { (vt, PK::Plain) };
        out.push(Param { vt, pk, name: format!("p{i}") });
    }
    let names = crate::prog::param_names(t, out.len());
    for (p, n) in out.iter_mut().zip(names) {
        p.name = n;
    }
    out
}

fn pattern_of(p: &Param, k: usize) -> String {
    // a `matching!` pattern for the value used at position k
    let v = 11 * (k as i64 + 1);
    match p.vt {
        VT::I32 => format!("{v}"),
        VT::U8 => format!("{}", v % 250),
        VT::Bool => if k % 2 == 0 { "true".into() } else { "false".into() },
        VT::Str => format!("\"s{v}\""),
        _ => "_".into(),
    }
}

#[derive(Clone)]
struct F {
    name: String,
    tag: String,
    is_async: bool,
    deps: u8, // 0 generic `&D`, 1 `&impl Dep0`, 2 no_deps, 3 concrete
    params: Vec<Param>,
    /// one parameter has the fn's own generic type `T` (the generated trait and the mock API are generic then)
    generic: bool,
    /// `T` is declared but appears in no parameter: callers (and the un-mocked call) have to name it
    phantom: bool,
    /// a trailing `impl Trait` argument (matched with `_`)
    impl_arg: bool,
}

impl F {
    fn render(&self, vis: &str) -> String {
        let mut ps: Vec<String> = vec![];
        let tb = if self.is_async { "T: ::core::fmt::Debug + Send + Sync + 'static" } else { "T: ::core::fmt::Debug + 'static" };
        let g = match (self.deps, self.generic) {
            (0, g) => {
                ps.push("deps: &D".into());
                if g { format!("<D, {tb}>") } else { "<D>".to_string() }
            }
            (1, g) => {
                ps.push("deps: &impl Dep0".into());
                if g { format!("<{tb}>") } else { String::new() }
            }
            (3, _) => {
                ps.push("deps: &Conf".into());
                String::new()
            }
            (_, g) => if g { format!("<{tb}>") } else { String::new() },
        };
        for p in &self.params {
            ps.push(format!("{}: {}", p.pat(&self.name), p.vt.ty("T")));
        }
        if self.impl_arg {
            ps.push("xtail: impl ::core::fmt::Debug + Send + Sync + 'static".into());
        }
        let id = if self.deps == 2 { "0usize".to_string() } else { "rt::addr(deps)".to_string() };
        let mut body = format!("    let __id: usize = {id};\n");
        let mut parts = vec![];
        for (i, p) in self.params.iter().enumerate() {
            body.push_str(&format!("    let __a{i}: String = {};\n", p.trace_expr(&self.name).unwrap_or_else(|| "String::new()".into())));
            parts.push(format!("__a{i}.as_str()"));
        }
        if self.impl_arg {
            body.push_str("    let __atail: String = format!(\"{:?}\", xtail);\n");
            parts.push("__atail.as_str()".to_string());
        }
        if self.is_async {
            body.push_str("    rt::yield_once().await;\n");
        }
        let sum = if self.deps == 1 { "deps.dep0()" } else { "0u32" };
        let args = if parts.is_empty() { "String::new()".to_string() } else { format!("[{}].join(\",\")", parts.join(", ")) };
        body.push_str(&format!("    let __r = format!(\"{}|{{}}|{{}}|{{}}\", __id, {args}, {sum});\n    rt::trace(__r.clone());\n    __r\n", self.tag));
        format!("{vis}{}fn {}{g}({}) -> String {{\n{body}}}", if self.is_async { "async " } else { "" }, self.name, ps.join(", "))
    }
    fn args(&self) -> String {
        let mut a: Vec<String> = self.params.iter().enumerate().map(|(i, p)| p.vt.expr(i)).collect();
        if self.impl_arg {
            a.push("77u8".into());
        }
        a.join(", ")
    }
    fn patterns(&self, rot: usize) -> String {
        let n = self.params.len();
        let mut p: Vec<String> = (0..n).map(|i| pattern_of(&self.params[i], (i + rot) % n.max(1))).collect();
        if self.impl_arg {
            p.push("_".into());
        }
        p.join(", ")
    }
    /// is there a rotation of the values that differs from the identity but still type-checks position-wise
    fn rotation(&self) -> Option<usize> {
        let n = self.params.len();
        for r in 1..n {
            if (0..n).all(|i| self.params[i].vt == self.params[(i + r) % n].vt) && (0..n).any(|i| pattern_of(&self.params[i], i) != pattern_of(&self.params[i], (i + r) % n)) {
                return Some(r);
            }
        }
        // partial: swap two adjacent same-typed positions
        None
    }
    fn swap_pair(&self) -> Option<(usize, usize)> {
        for i in 0..self.params.len().saturating_sub(1) {
            if self.params[i].vt == self.params[i + 1].vt && pattern_of(&self.params[i], i) != pattern_of(&self.params[i + 1], i + 1) {
                return Some((i, i + 1));
            }
        }
        None
    }
    fn swapped_patterns(&self) -> Option<String> {
        if let Some(r) = self.rotation() {
            return Some(self.patterns(r));
        }
        let (a, b) = self.swap_pair()?;
        let mut pats: Vec<String> = (0..self.params.len()).map(|i| pattern_of(&self.params[i], i)).collect();
        pats.swap(a, b);
        if self.impl_arg {
            pats.push("_".into());
        }
        Some(pats.join(", "))
    }
}

fn block(src: &mut String, title: &str, body: &str) {
    src.push_str(&format!("    // {title}\n    {{\n{body}    }}\n"));
}

/// a module / trait without methods: the mock API is still reachable under its name, and the mock object still implements the trait
fn empty_checks(api: &str, src: &mut String, run: &mut String) {
    let _ = src;
    run.push_str(&format!("    {{ use {api} as _; }}\n"));
    run.push_str(
        "    {\n        struct Probe<T>(::core::marker::PhantomData<T>);\n        trait Fallback { fn has(&self) -> bool { false } }\n        impl<T> Fallback for Probe<T> {}\n        impl<T: TheTrait> Probe<T> { fn has(&self) -> bool { true } }\n        if !Probe::<Unimock>(::core::marker::PhantomData).has() { fails.push(\"`Unimock: TheTrait` does not hold for a mockable module / trait without methods\".to_string()); }\n    }\n",
    );
}

pub fn gen_case(t: &mut Tape) -> Case {
    let kind = t.weighted(&[4, 3, 2]); // fn, mod, trait
    let mut src = String::from(
        "#![allow(warnings)]\nuse crate::rt;\nuse ::unimock::*;\nuse ::std::panic::{catch_unwind, AssertUnwindSafe};\npub struct Conf { pub name: String }\n#[derive(Debug, Clone, PartialEq)] pub struct N(pub i32);\n#[derive(Debug, Clone, PartialEq)] pub struct S { pub a: i32 }\n\
         #[::entrait::entrait(pub Dep0, mock_api = Dep0Mock, export)]\nfn dep0(_deps: &impl Sized) -> u32 { 5 }\n",
    );
    let mut run = String::from("pub fn run() -> Vec<String> {\n    let mut fails: Vec<String> = vec![];\n");
    let mut classes: Vec<&'static str> = vec![];
    let mut nontrivial = false;
    let summary;
    let export_via_macro = t.flip();
    let (mac, exp) = if export_via_macro { ("::entrait::entrait_export", "") } else { ("::entrait::entrait", ", export") };
    let gen_f = |t: &mut Tape, name: &str, tag: &str, deps_pool: &[u8]| F { name: name.into(), tag: tag.into(), is_async: t.chance(1, 3), deps: *t.pick(deps_pool), params: gen_params(t), generic: false, phantom: false, impl_arg: false };
    // checks for one mockable fn reachable as `$call(args)` on a Unimock, API path `$api`
    let via_call = |f: &F, args: &str| {
        if f.phantom {
            format!("<Unimock as TheTrait<i64>>::{}(&u{}{args})", f.name, if args.is_empty() { "" } else { ", " })
        } else {
            format!("u.{}({args})", f.name)
        }
    };
    let checks = |f: &F, api: &str, direct_path: &str, unmockable: bool, run: &mut String, classes: &mut Vec<&'static str>, nontrivial: &mut bool| {
        let args = f.args();
        let comma = if args.is_empty() { "" } else { ", " };
        let wrap = |e: String| if f.is_async { format!("rt::block_on({e})") } else { e };
        // (b) answers in declared order
        let pats = f.patterns(0);
        let mut b = String::new();
        b.push_str(&format!("        let u = Unimock::new({api}.each_call(matching!({pats})).returns(String::from(\"ANSWER\")));\n"));
        b.push_str(&format!("        let got = {};\n        let _ = rt::take();\n", wrap(via_call(f, &args))));
        b.push_str(&format!("        rt::expect_eq(&mut fails, \"{}: mocked call with the values in declared order\", &got, &String::from(\"ANSWER\"));\n", f.name));
        block(run, "(b) a clause matching the values in declared order answers", &b);
        if let Some(sw) = f.swapped_patterns() {
            let mut b = String::new();
            b.push_str(&format!(
                "        let r = catch_unwind(AssertUnwindSafe(|| {{ let u = Unimock::new({api}.each_call(matching!({sw})).returns(String::from(\"ANSWER\"))); {} }}));\n        let _ = rt::take();\n",
                wrap(via_call(f, &args))
            ));
            b.push_str(&format!("        if r.is_ok() {{ fails.push(\"{}: a clause expecting the argument values in a different order matched: arguments do not reach the mock in declared order\".to_string()); }}\n", f.name));
            block(run, "(b') a clause matching permuted values must not match", &b);
            classes.push("order_observed_by_permuted_clause");
            *nontrivial = true;
        }
        // (c)/(d) partial mock without clauses
        if unmockable {
            let mut b = String::new();
            let direct = match f.deps {
                2 => format!("{direct_path}{}{}({args})", f.name, if f.phantom { "::<i64>" } else { "" }),
                0 if f.phantom => format!("{direct_path}{}::<_, i64>(&u{comma}{args})", f.name),
                _ => format!("{direct_path}{}{}(&u{comma}{args})", f.name, if f.phantom { "::<i64>" } else { "" }),
            };
            b.push_str("        let u = Unimock::new_partial(());\n        let _ = rt::take();\n");
            b.push_str(&format!("        let direct = {};\n        let t_direct = rt::take();\n", wrap(direct)));
            b.push_str(&format!("        let via = {};\n        let t_via = rt::take();\n", wrap(via_call(f, &args))));
            b.push_str("        if t_direct.len() != 1 { fails.push(format!(\"HARNESS: direct call traced {} entries\", t_direct.len())); }\n");
            b.push_str(&format!("        rt::expect_eq(&mut fails, \"{}: un-mocked call result vs the original fn on the mock object\", &via, &direct);\n", f.name));
            b.push_str(&format!("        rt::expect_eq(&mut fails, \"{}: un-mocked call trace (fn tag, deps = the Unimock, args) vs the original fn\", &t_via, &t_direct);\n", f.name));
            block(run, "(c) partial mock: the original fn runs with the mock object as deps", &b);
        } else {
            let mut b = String::new();
            b.push_str(&format!(
                "        let r = catch_unwind(AssertUnwindSafe(|| {{ let u = Unimock::new_partial(()); {} }}));\n        let t = rt::take();\n",
                wrap(via_call(f, &args))
            ));
            b.push_str(&format!("        if r.is_ok() || !t.is_empty() {{ fails.push(format!(\"{}: must not be un-mockable, but the call on a partial mock returned / ran a body (trace {{:?}})\", t)); }}\n", f.name));
            block(run, "(d) not un-mockable: the call on a partial mock panics", &b);
        }
    };
    match kind {
        0 => {
            let mut f = gen_f(t, "the_fn", "F", &[0, 0, 1, 2, 3]);
            // a generic parameter of the fn's own: trait and mock API become generic (`TheMock.with_types::<i64>()`)
            if f.deps != 3 && !f.params.is_empty() && t.chance(1, 5) {
                let i = t.choose(f.params.len());
                f.params[i].vt = VT::Gen;
                f.params[i].pk = PK::Plain;
                f.generic = true;
                classes.push("fn:generic_type_parameter");
            }
            // ... or one that no argument mentions
            if f.deps != 3 && !f.generic && t.chance(1, 6) {
                f.generic = true;
                f.phantom = true;
                classes.push("fn:type_parameter_in_no_argument");
            }
            // an `impl Trait` argument (next to whatever else the fn is generic over)
            if f.deps != 3 && t.chance(1, 4) {
                f.impl_arg = true;
                classes.push("fn:impl_trait_argument");
            }
            let nd = if f.deps == 2 { ", no_deps" } else { "" };
            // the fn may come out of a `macro_rules!` expansion with two same-spelled parameters (one written in the macro, one
            // passed in): the un-mock expression and the delegation must forward each identifier, not a spelling
            let plain: Vec<usize> = f.params.iter().enumerate().filter(|(_, p)| p.pk == PK::Plain).map(|(i, _)| i).collect();
            if plain.len() >= 2 && t.chance(1, 6) {
                let (i, j) = (plain[0], plain[plain.len() - 1]);
                let passed = f.params[i].name.clone();
                let mut fm = f.clone();
                fm.params[j].name = "$p".to_string();
                src.push_str(&format!("macro_rules! __mk_the_fn {{ ($p:ident) => {{\n/*GEN*/ #[{mac}(pub TheTrait, mock_api = TheMock{nd}{exp})]\n{}\n}} }}\n__mk_the_fn!({passed});\n", fm.render("")));
                classes.push("fn_from_macro_rules_with_same_spelled_parameters");
                nontrivial = true;
            } else if t.chance(1, 6) {
                // ... or with the option that switches the mock on passed in by the caller (`$o:ident`): the attribute the
                // macro generates for the mock library must not take its hygiene from that option
                src.push_str(&format!("macro_rules! __mk_the_fn {{ ($($o:ident),*) => {{\n/*GEN*/ #[{mac}(pub TheTrait, mock_api = TheMock{nd}{exp} $(, $o)*)]\n{}\n}} }}\n__mk_the_fn!(unimock);\n", f.render("")));
                classes.push("fn_in_macro_rules_with_the_mock_option_passed_as_a_fragment");
                nontrivial = true;
            } else {
                src.push_str(&format!("/*GEN*/ #[{mac}(pub TheTrait, mock_api = TheMock{nd}{exp})]\n{}\n", f.render("")));
            }
            // (unimock makes the API generic over the fn's type parameters and over the types behind `impl Trait` arguments)
            checks(&f, match (f.generic, f.impl_arg) { (true, true) => "TheMock.with_types::<i64, u8>()", (true, false) => "TheMock.with_types::<i64>()", (false, true) => "TheMock.with_types::<u8>()", _ => "TheMock" }, "", f.deps != 3, &mut run, &mut classes, &mut nontrivial);
            classes.push(["fn:generic_deps", "fn:impl_deps", "fn:no_deps", "fn:concrete_deps"][f.deps as usize]);
            if f.deps == 2 && f.params.len() >= 2 {
                nontrivial = true;
            }
            summary = format!("#[{mac}(pub TheTrait, mock_api = TheMock{nd}{exp})] {}", f.render("").lines().next().unwrap_or(""));
        }
        1 => {
            let no_deps = t.chance(1, 5);
            let pool: Vec<u8> = if no_deps { vec![2] } else { vec![0, 1] };
            // (a module may have no visible fn at all: the trait, its mock API module and `Unimock: TheTrait` still exist)
            let n = if t.chance(1, 8) { 0 } else { t.range(1, 4) };
            let names = crate::prog::member_names(t, n.max(1));
            let mut fns: Vec<F> = vec![];
            for i in 0..n {
                let f = if i > 0 && t.chance(1, 2) {
                    let mut c = fns[i - 1].clone();
                    c.name = names[i].clone();
                    c.tag = format!("F{i}");
                    c
                } else {
                    gen_f(t, &names[i], &format!("F{i}"), &pool)
                };
                fns.push(f);
            }
            let nd = if no_deps { ", no_deps" } else { "" };
            src.push_str(&format!("/*GEN*/ #[{mac}(pub TheTrait, mock_api = TheMock{nd}{exp})]\npub mod m {{\n    use super::*;\n"));
            for f in &fns {
                // an *enabled* cfg on a member must change nothing
                let cfg = match t.weighted(&[4, 1, 1]) {
                    0 => "",
                    1 => "#[cfg(all())] ",
                    _ => "#[cfg(not(any()))] ",
                };
                src.push_str(&format!("    {cfg}{}\n", f.render("pub ").replace('\n', "\n    ")));
            }
            if n == 0 {
                src.push_str("    fn private_helper() -> u32 { 1 }\n    pub struct NotAFn;\n");
                empty_checks("m::TheMock", &mut src, &mut run);
                classes.push("empty_module");
            }
            src.push_str("}\n");
            let same = fns.windows(2).any(|w| w[0].params.iter().map(|p| p.vt).collect::<Vec<_>>() == w[1].params.iter().map(|p| p.vt).collect::<Vec<_>>() && w[0].is_async == w[1].is_async);
            if same {
                classes.push("module_same_signature_fns");
                nontrivial = true;
            }
            for f in &fns {
                checks(f, &format!("m::TheMock::{}", f.name), "m::", true, &mut run, &mut classes, &mut nontrivial);
            }
            classes.push(if no_deps { "mod:no_deps" } else { "mod" });
            summary = format!("#[{mac}(pub TheTrait, mock_api = TheMock{nd}{exp})] mod m {{ {} }}", fns.iter().map(|f| f.render("pub ").lines().next().unwrap_or("").to_string()).collect::<Vec<_>>().join(" "));
        }
        _ => {
            let n = if t.chance(1, 8) { 0 } else { t.range(1, 3) };
            let names = crate::prog::member_names(t, n.max(1));
            let mut sigs = vec![];
            let mut fns: Vec<F> = vec![];
            for i in 0..n {
                let f = gen_f(t, &names[i], &format!("M{i}"), &[2]);
                let mut ps = vec!["&self".to_string()];
                for p in &f.params {
                    ps.push(format!("{}: {}", p.name, p.vt.ty("T")));
                }
                sigs.push(format!("{}fn {}({}) -> String;", if f.is_async { "async " } else { "" }, f.name, ps.join(", ")));
                fns.push(f);
            }
            // plain, or with a delegation-target trait (dependency inversion, static or dynamic): the mock API belongs to the user's trait
            let head = *t.pick(&["", "", "TheImpl, delegate_by = DelegateIt, ", "TheImpl, delegate_by = ref, "]);
            if !head.is_empty() {
                classes.push("trait_with_delegation_target");
            }
            let at = if head.contains("= ref") && fns.iter().any(|f| f.is_async) { "#[::async_trait::async_trait]\n" } else { "" };
            src.push_str(&format!("/*GEN*/ #[::entrait::entrait_export({head}mock_api = TheMock)]\n{at}pub trait TheTrait {{\n    {}\n}}\n", sigs.join("\n    ")));
            for f in &fns {
                checks(f, &format!("TheMock::{}", f.name), "", false, &mut run, &mut classes, &mut nontrivial);
            }
            if n == 0 {
                empty_checks("self::TheMock", &mut src, &mut run);
                classes.push("empty_trait");
            }
            classes.push("trait");
            summary = format!("#[::entrait::entrait_export({head}mock_api = TheMock)] trait TheTrait {{ {} }}", sigs.join(" "));
        }
    }
    run.push_str("    fails\n}\n");
    src.push_str(&run);
    let twin = String::new();
    Case { src, twin, summary, nontrivial, classes }
}

fn run_single(name: &str, src: &str) -> Result<(String, String), String> {
    let mut b = Batch::new(name, Opts { feature_unimock: true, members: 1, ..Default::default() });
    b.add("c00000", src.to_string());
    let out = b.build_and_run();
    b.cleanup();
    if let Some(d) = out.compile_failed.values().next() {
        return Err(d.first().map(|x| x.rendered.clone()).unwrap_or_default());
    }
    out.ran.get("c00000").cloned().ok_or_else(|| "no result".to_string())
}

pub const TAPE_LEN: usize = 96;

pub fn run(ctx: &mut Ctx) {
    ctx.rule = "cases (cargo feature `unimock` on) = exported mockable fns (generic deps, `&impl Dep0`, no_deps, concrete deps), modules of 1..4 fns with repeated signatures, and entraited traits, \
                arity 0..5 over {i32, u8, &str, bool} biased to adjacent equal types, sync/async; each program names the mock API as requested, checks that a clause with the values in declared \
                order answers and one with permuted values does not match, that a partial mock runs the original fn with the Unimock as deps (result + trace equal to the direct call, per-fn tags), \
                and that concrete-deps fns / entraited traits panic instead; non-trivial = a permuted clause exists (>=2 same-typed params with different values), a module with same-signature fns, \
                or no_deps with >=2 params; distinct = distinct program text"
        .into();
    ctx.assumptions.push("parameter types stay inside {i32, u8, &str, bool}: what `matching!` patterns can express literally; a compile failure of these programs is reported as a violation of (a) only when it names the mock API path".into());
    let n = ctx.n(800, 8000) as usize;
    let tapes = crate::drive::gen_tapes(ctx.seed, 1100, n, TAPE_LEN);
    let cases: Vec<Case> = tapes.iter().map(|tp| gen_case(&mut Tape::new(tp))).collect();
    let mut batch = Batch::new("c11", Opts { feature_unimock: true, members: 16, ..Default::default() });
    for (i, c) in cases.iter().enumerate() {
        batch.add(&format!("c{i:05}"), c.src.clone());
    }
    let out = batch.build_and_run();
    batch.cleanup();
    super::common::crosscheck_records(ctx, &out.records);
    for (id, (status, msg)) in &out.ran {
        let i: usize = id[1..].parse().unwrap_or(0);
        let case = &cases[i];
        if msg.contains("__REMOVED__") {
            continue;
        }
        ctx.count_eval();
        for c in &case.classes {
            ctx.class(c);
        }
        if status == "ok" {
            if case.nontrivial {
                ctx.nontrivial(&case.src);
                ctx.sample(|| json!(case.summary));
            }
            continue;
        }
        if msg.contains("HARNESS") {
            crate::ev::inconclusive(&format!("client harness fault: {msg}\n{}", case.src));
        }
        ctx.violation(
            &format!("unimock wiring differs from the statement ({status}): {msg} -- in {}", case.summary),
            &json!({"engine": "E2", "src": case.src, "summary": case.summary}),
        );
        return;
    }
    if let Some((id, d)) = out.compile_failed.iter().next() {
        let i: usize = id[1..].parse().unwrap_or(0);
        let first = d.first().map(|x| x.rendered.clone()).unwrap_or_default();
        // (a): the API must be reachable under exactly the requested name
        if d.iter().any(|x| (x.code == "E0425" || x.code == "E0433" || x.code == "E0599" || x.code == "E0412" || x.code == "E0432") && x.message.contains("TheMock")) {
            ctx.count_eval();
            ctx.violation(
                &format!("the mock API is not reachable under the requested `mock_api` name: {} -- in {}", d.first().map(|x| x.message.clone()).unwrap_or_default(), cases[i].summary),
                &json!({"engine": "E2", "src": cases[i].src, "summary": cases[i].summary, "expect": "compiles"}),
            );
            return;
        }
        // (c): the un-mocked call is part of what the macro asks unimock to generate; for a fn whose type parameter no
        // argument mentions it has to name that parameter
        for (id, d) in &out.compile_failed {
            let i: usize = id[1..].parse().unwrap_or(0);
            if cases[i].classes.contains(&"fn:type_parameter_in_no_argument") && d.iter().any(|x| ["E0282", "E0283", "E0284"].contains(&x.code.as_str())) {
                ctx.count_eval();
                ctx.violation(
                    &format!("the generated mock wiring of a fn whose type parameter appears in no argument does not compile (the un-mocked call cannot infer it): {} -- in {}", d.first().map(|x| format!("{} {}", x.code, x.message)).unwrap_or_default(), cases[i].summary),
                    &json!({"engine": "E2", "src": cases[i].src, "summary": cases[i].summary, "expect": "compiles"}),
                );
                return;
            }
        }
        // the wiring the macro asks for names a value that does not exist: the error sits on the attribute itself
        // (the user's own code and unimock's known limits do not produce that: the generator has no const generics)
        for (id, d) in &out.compile_failed {
            let i: usize = id[1..].parse().unwrap_or(0);
            if let Some(x) = d.iter().find(|x| x.code == "E0425" && x.message.starts_with("cannot find value") && x.rendered.contains("/*GEN*/ #[")) {
                ctx.count_eval();
                ctx.violation(
                    &format!("the generated mock wiring refers to a value that does not exist: {} -- in {}", x.message, cases[i].summary),
                    &json!({"engine": "E2", "src": cases[i].src, "summary": cases[i].summary, "expect": "compiles"}),
                );
                return;
            }
        }
        crate::ev::inconclusive(&format!("{} of {} C11 programs do not compile; first: {}\n{first}", out.compile_failed.len(), cases.len(), cases[i].summary));
    }
}

pub fn replay(ctx: &mut Ctx, v: &Value) {
    ctx.count_eval();
    match run_single("c11-replay", &super::s(v, "src")) {
        Err(e) => {
            if super::s(v, "expect") == "compiles" {
                ctx.violation(&format!("program does not compile: {}", e.lines().next().unwrap_or("")), v);
            } else {
                crate::ev::inconclusive(&format!("replayed program does not compile: {e}"));
            }
        }
        Ok((st, msg)) => {
            if st != "ok" {
                ctx.violation(&format!("unimock wiring differs from the statement: {msg}"), v);
            }
        }
    }
}
