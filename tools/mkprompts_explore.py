#!/usr/bin/env python3
"""mkprompts_explore.py <dir> <groups.json>: exploration-only prompts (no seeding). groups.json: {"A": ["C01","C12"], ...};
each sub-agent gets the text of its properties, the classes of inputs earlier rounds already tried (tools/classes-round*.json),
and its own scratch worktree <dir>/<group>."""
import json, sys, glob
root, groups = sys.argv[1], json.load(open(sys.argv[2]))
props = {}
for l in open('/verif/properties.jsonl'):
    p = json.loads(l); props[p['id']] = p
tried = {}
for f in sorted(glob.glob('/verif/tools/classes-round*.json')):
    for k, v in json.load(open(f)).items():
        tried.setdefault(k, []).append(v)
known = open('/verif/tools/known-reported.txt').read() if len(sys.argv) > 3 and sys.argv[3] == '--known' else ''
for g, ids in groups.items():
    parts = []
    for pid in ids:
        p = props[pid]
        parts.append(f"""### {pid} — {p['title']}

Statement: {p['statement']}

Quantified over: {p['quantifier']['text']}

Classes of inputs that have ALREADY been explored for this property (do not spend time on them; find others): """ + " // ".join(tried.get(pid, [])))
    txt = f"""You are testing a Rust proc-macro crate by hand, looking for inputs it handles wrongly.

Repository: a git worktree of `audunhalland/entrait` (a proc-macro attribute `#[entrait]` that generates traits and delegating impls from functions, modules, traits and impl blocks; read README.md, src/lib.rs docs and entrait_macros/src/**) at:

    {root}/{g}

Work ONLY inside that directory. Do NOT read or touch /repo, /verif or any other worktree. There is no network; build with `cargo ... --offline`. Do not change the crate's sources (you may add `eprintln!` temporarily, but remove it); do not commit.

The semantic properties to test:

""" + "\n\n".join(parts) + f"""

Your task: find inputs, within what the properties quantify over, that the crate AS IT IS handles wrongly with respect to one of these properties (does not compile although the plain Rust item does, wrong behaviour at run time, a panic, lost or altered tokens, an unparseable expansion, a diagnostic where none is due or none where one is due). Think about which kinds of Rust syntax and which combinations of features a person writing real code would use that a tester with generated inputs is least likely to have covered - unusual but legal syntax, interactions between two features, things that only show in behaviour (drop order, hygiene, which impl is selected, lints as errors) - and try them. Write small programs under `tests/explore/` (a tiny crate with its own empty `[workspace]` table that depends on `entrait` by path, optionally with `features = ["unimock"]`; `cargo expand` is not available - read compile errors, use the undocumented `debug` option of the attribute to print an expansion, or run the program). Aim for breadth first (dozens of small inputs), then dig where something looks off. For every candidate, check that the same item WITHOUT `#[entrait]` is accepted by rustc (otherwise it is not a finding), and reduce it to a minimal program.

Reply with a list of findings, most convincing first. For each: the property it concerns, the minimal program, what happens (exact error / wrong value), what should happen according to the property, and - if you can tell - which part of `entrait_macros/src` is at fault and what a minimal repair would be. Then list, briefly, the kinds of input you tried that worked. """ + ("\n\nThe following have been reported by earlier testers already - do NOT spend time on them or report them again:\n" + known if known else "") + """\n\nDo not report the limitations the documentation states itself (cyclic dependency graphs, `&mut` dependencies, generic delegated traits, `impl<T>` blocks, `Self` in signatures of delegated traits, mock-library limits)."""
    open(f'{root}/{g}.prompt', 'w').write(txt)
print('ok', len(groups))
