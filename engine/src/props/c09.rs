//! C09 — an entraited trait definition is preserved.
//!
//! E1 oracle: parse the input trait and the same-named trait of the expansion with syn and compare field by field:
//! attributes (the expansion may add only mock derivations it owns), visibility, `unsafe`, name, generics, supertraits,
//! where clause, and every item pairwise (attributes, signature, default body, associated types). The single permitted
//! rewrite, `async fn m(..) -> R` => `fn m(..) -> impl Future<Output = R> [+ Send]` in the absence of `async_trait`,
//! is recognised structurally.

use crate::drive::{run_tapes_par, Fail};
use crate::e1::{self, Outcome};
use crate::ev::Ctx;
use crate::gen::{self, TraitGenCfg, TraitItemSrc};
use crate::tape::Tape;
use crate::tok::{self, Tok};
use quote::ToTokens;
use serde_json::{json, Value};

pub struct Case {
    pub macro_name: String,
    pub attr: String,
    pub item: String,
    pub nontrivial: bool,
    pub class: &'static str,
}

impl Case {
    pub fn json(&self) -> Value {
        json!({"engine": "E1", "macro": self.macro_name, "attr": self.attr, "item": self.item})
    }
}

fn t_of<T: ToTokens>(x: &T) -> Vec<Tok> {
    tok::toks(x.to_token_stream())
}

fn attr_is_mock(a: &syn::Attribute) -> bool {
    // `[path::]unimock(..)`, `[path::]automock`, or `cfg_attr(test, <one of those>)`
    let last = a.path().segments.last().map(|s| s.ident.to_string()).unwrap_or_default();
    if last == "unimock" || last == "automock" {
        return true;
    }
    if last == "cfg_attr" {
        let inner = t_of(&a.meta);
        if let Some(Tok::Group('(', g)) = inner.last() {
            let mut ids = vec![];
            tok::idents(g, &mut ids);
            return ids.first().map(|s| s == "test").unwrap_or(false) && ids.iter().any(|i| i == "unimock" || i == "automock");
        }
    }
    false
}

fn has_async_trait(attrs: &[syn::Attribute]) -> bool {
    attrs.iter().any(|a| a.path().segments.last().map(|s| s.ident == "async_trait").unwrap_or(false))
}

fn cmp<T: ToTokens>(what: &str, a: &T, b: &T) -> Result<(), String> {
    let (ta, tb) = (t_of(a), t_of(b));
    if ta != tb {
        return Err(format!("{what} changed: `{}` became `{}`", tok::render(&ta), tok::render(&tb)));
    }
    Ok(())
}

fn cmp_attrs(what: &str, input: &[syn::Attribute], output: &[syn::Attribute]) -> Result<(), String> {
    // an inner attribute (`#![..]` / `//! ..` at the top of the trait's body) means the same written as an outer one: the
    // trait is re-emitted, which spelling it comes back in is not prescribed - but it must come back, in place
    let outer = |a: &syn::Attribute| {
        let mut a = a.clone();
        a.style = syn::AttrStyle::Outer;
        a
    };
    let input: Vec<syn::Attribute> = input.iter().map(outer).collect();
    let output: Vec<syn::Attribute> = output.iter().map(outer).collect();
    let (input, output) = (&input[..], &output[..]);
    let inp: Vec<Vec<Tok>> = input.iter().map(|a| t_of(a)).collect();
    // macro-owned = looks like a mock derivation and is not one of the user's own attributes
    let out_user: Vec<Vec<Tok>> = output.iter().filter(|a| !(attr_is_mock(a) && !inp.contains(&t_of(*a)))).map(|a| t_of(a)).collect();
    if out_user != inp {
        let missing: Vec<String> = inp.iter().filter(|a| !out_user.contains(a)).map(|a| tok::render(a)).collect();
        let extra: Vec<String> = out_user.iter().filter(|a| !inp.contains(a)).map(|a| tok::render(a)).collect();
        return Err(format!("{what}: attributes not preserved (missing: {missing:?}, unexpected: {extra:?}, or reordered)"));
    }
    Ok(())
}

/// compare method signatures modulo the documented async rewrite
fn cmp_sig(name: &str, input: &syn::Signature, output: &syn::Signature, async_trait: bool, maybe_send: bool) -> Result<(), String> {
    if input.asyncness.is_some() && !async_trait {
        let mut a = input.clone();
        let mut b = output.clone();
        if b.asyncness.is_some() {
            // keeping `async fn` is preservation too
            return cmp(&format!("signature of `{name}`"), input, output);
        }
        a.asyncness = None;
        let want_out: Vec<Tok> = match &a.output {
            syn::ReturnType::Default => vec![Tok::Group('(', vec![])],
            syn::ReturnType::Type(_, ty) => t_of(ty),
        };
        a.output = syn::ReturnType::Default;
        let got_ret = std::mem::replace(&mut b.output, syn::ReturnType::Default);
        cmp(&format!("signature of async `{name}` (apart from the return type)"), &a, &b)?;
        // got_ret must be `-> impl Future<Output = R> [+ Send]`
        let ok = match &got_ret {
            syn::ReturnType::Type(_, ty) => match ty.as_ref() {
                syn::Type::ImplTrait(it) => {
                    let mut fut_ok = false;
                    let mut others_ok = true;
                    let mut sends = 0;
                    for bound in &it.bounds {
                        match bound {
                            syn::TypeParamBound::Trait(tb) => {
                                let last = tb.path.segments.last();
                                match last {
                                    Some(seg) if seg.ident == "Future" => {
                                        if let syn::PathArguments::AngleBracketed(ab) = &seg.arguments {
                                            for arg in &ab.args {
                                                if let syn::GenericArgument::AssocType(at) = arg {
                                                    if at.ident == "Output" && t_of(&at.ty) == want_out {
                                                        fut_ok = true;
                                                    }
                                                }
                                            }
                                        }
                                    }
                                    Some(seg) if seg.ident == "Send" => sends += 1,
                                    _ => others_ok = false,
                                }
                            }
                            _ => others_ok = false,
                        }
                    }
                    // `+ Send` is part of the documented rewrite exactly when `?Send` was not given
                    if fut_ok && others_ok && sends != if maybe_send { 0 } else { 1 } {
                        return Err(format!(
                            "async method `{name}`: rewritten return type `{}` {} although the invocation {}",
                            tok::render(&t_of(&got_ret)),
                            if sends == 0 { "has no `Send` bound" } else { "requires `Send`" },
                            if maybe_send { "says `?Send`" } else { "does not say `?Send`" }
                        ));
                    }
                    fut_ok && others_ok
                }
                _ => false,
            },
            _ => false,
        };
        if !ok {
            return Err(format!(
                "async method `{name}`: return type `{}` is not `impl Future<Output = {}> [+ Send]`",
                tok::render(&t_of(&got_ret)),
                tok::render(&want_out)
            ));
        }
        Ok(())
    } else {
        cmp(&format!("signature of `{name}`"), input, output)
    }
}

/// `tol`: differences that are listed as open known findings (tolerated exactly, nothing else)
#[derive(Clone, Copy, Default)]
pub struct Tol {
    pub default_body_dropped: bool,
    pub assoc_type_dropped: bool,
}

pub fn compare(input: &syn::ItemTrait, output: &syn::ItemTrait, tol: Tol, maybe_send: bool) -> Result<(), String> {
    cmp_attrs("trait", &input.attrs, &output.attrs)?;
    cmp("visibility", &input.vis, &output.vis)?;
    if input.unsafety.is_some() != output.unsafety.is_some() {
        return Err("`unsafe` on the trait was dropped".into());
    }
    if input.auto_token.is_some() != output.auto_token.is_some() {
        return Err("`auto` on the trait was dropped".into());
    }
    cmp("generic parameters", &input.generics.params, &output.generics.params)?;
    cmp("where clause", &input.generics.where_clause, &output.generics.where_clause)?;
    cmp("supertraits", &input.supertraits, &output.supertraits)?;
    let async_trait = has_async_trait(&input.attrs);
    let mut oi = output.items.iter().peekable();
    for item in &input.items {
        match item {
            syn::TraitItem::Fn(f) => {
                let name = f.sig.ident.to_string();
                let g = match oi.next() {
                    Some(syn::TraitItem::Fn(g)) if g.sig.ident == f.sig.ident => g,
                    Some(other) => return Err(format!("method `{name}` missing or out of order: found `{}` in its place", truncate(&tok::render(&t_of(other)), 80))),
                    None => return Err(format!("method `{name}` missing from the trait")),
                };
                cmp_attrs(&format!("method `{name}`"), &f.attrs, &g.attrs)?;
                cmp_sig(&name, &f.sig, &g.sig, async_trait, maybe_send)?;
                match (&f.default, &g.default) {
                    (None, None) => {}
                    (Some(a), Some(b)) => {
                        // an async default body may legitimately be wrapped; require the user's block tokens to survive inside
                        let (ta, tb) = (t_of(a), t_of(b));
                        if ta != tb && !contains_group(&tb, &ta) && !contains_spliced(&tb, &ta) {
                            return Err(format!("default body of `{name}` changed"));
                        }
                    }
                    (Some(_), None) if tol.default_body_dropped => {}
                    (Some(_), None) => return Err(format!("default body of method `{name}` was dropped")),
                    (None, Some(_)) => return Err(format!("method `{name}` gained a body")),
                }
            }
            syn::TraitItem::Type(ty) => match oi.peek() {
                Some(syn::TraitItem::Type(ty2)) => {
                    cmp(&format!("associated type `{}`", ty.ident), ty, ty2)?;
                    oi.next();
                }
                _ if tol.assoc_type_dropped => {}
                _ => return Err(format!("associated type `{}` was dropped", ty.ident)),
            },
            other => match oi.next() {
                Some(o2) => cmp("trait item", other, o2)?,
                None => return Err("a trait item was dropped".into()),
            },
        }
    }
    if let Some(extra) = oi.next() {
        return Err(format!("the trait gained an item: `{}`", truncate(&tok::render(&t_of(extra)), 80)));
    }
    Ok(())
}

fn contains_group(hay: &[Tok], needle_block: &[Tok]) -> bool {
    // needle_block is a single brace group
    for t in hay {
        if let Tok::Group(_, inner) = t {
            if std::slice::from_ref(t) == needle_block || contains_group(inner, needle_block) {
                return true;
            }
        }
    }
    false
}

/// The statements of the user's block spliced into the wrapper's own block (no braces of their own): some brace group
/// of `hay` is `let _ = &param;`* followed by exactly the tokens inside `needle_block`.
fn contains_spliced(hay: &[Tok], needle_block: &[Tok]) -> bool {
    let [Tok::Group('{', needle)] = needle_block else { return false };
    fn is_binding(chunk: &[Tok]) -> bool {
        matches!(chunk, [Tok::Ident(l), Tok::Ident(u), Tok::Punct('='), Tok::Punct('&'), Tok::Ident(_), Tok::Punct(';')] if l == "let" && u == "_")
    }
    for t in hay {
        if let Tok::Group(d, inner) = t {
            if *d == '{' && inner.ends_with(needle) {
                let prefix = &inner[..inner.len() - needle.len()];
                if prefix.len() % 6 == 0 && prefix.chunks(6).all(is_binding) {
                    return true;
                }
            }
            if contains_spliced(inner, needle_block) {
                return true;
            }
        }
    }
    false
}

fn truncate(s: &str, n: usize) -> String {
    super::c20::truncate(s, n)
}

pub fn check(macro_name: &str, attr: &str, item: &str, tol: Tol) -> Result<&'static str, String> {
    let input: syn::ItemTrait = syn::parse2(tok::parse_src(item).map_err(|e| format!("HARNESS: {e}"))?).map_err(|e| format!("HARNESS: generated trait does not parse: {e}"))?;
    let out = match e1::outcome(macro_name, attr, item).map_err(|e| format!("HARNESS: {e}"))? {
        Outcome::Accepted(_, ts) => ts,
        Outcome::Rejected(_) => return Ok("rejected"),
        Outcome::Panic(_) => return Ok("panic"),
    };
    let file: syn::File = syn::parse2(out).map_err(|e| format!("expansion does not parse: {e}"))?;
    let output = file
        .items
        .iter()
        .find_map(|i| if let syn::Item::Trait(t) = i { (t.ident == input.ident).then_some(t) } else { None })
        .ok_or_else(|| format!("expansion contains no trait named `{}`", input.ident))?;
    // `?Send` among the attribute arguments (top level of the argument list)
    let maybe_send = {
        let a = tok::toks_of_src(attr).map_err(|e| format!("HARNESS: {e}"))?;
        a.windows(2).any(|w| w[0] == Tok::Punct('?') && w[1] == Tok::Ident("Send".into()))
    };
    compare(&input, output, tol, maybe_send).map(|_| "accepted")
}

pub fn gen_case(t: &mut Tape) -> Case {
    let macro_name = e1::MACROS[t.weighted(&[5, 2, 2, 1])].to_string();
    let cfg = TraitGenCfg {
        ref_self_only: true,
        patterns: true,
        default_bodies: true,
        assoc_types: true,
        other_items: false,
        unsafety: true,
        trait_attrs: true,
        method_attrs: true,
        generics: true,
        async_methods: true,
    };
    let mut tr = gen::gen_trait(t, "Tr", &cfg);
    if t.chance(1, 6) {
        tr.attrs.push(gen::async_trait_attr(t));
    }
    if t.chance(1, 10) {
        tr.attrs.insert(0, "#[mockall::automock]".into());
    }
    let has_default = tr.items.iter().any(|i| matches!(i, TraitItemSrc::Method(m) if m.body.is_some()));
    let has_assoc = tr.items.iter().any(|i| matches!(i, TraitItemSrc::AssocType(_)));
    let nontrivial = !tr.attrs.is_empty()
        || !tr.inner_attrs.is_empty()
        || tr.unsafety
        || !tr.generics.is_empty()
        || !tr.supertraits.is_empty()
        || has_default
        || has_assoc
        || tr.items.iter().any(|i| matches!(i, TraitItemSrc::Method(m) if !m.attrs.is_empty()));
    let class = if has_default {
        "with_default_body"
    } else if has_assoc {
        "with_assoc_type"
    } else if tr.has_async() {
        "with_async"
    } else {
        "plain"
    };
    Case { macro_name, attr: gen::gen_trait_attr(t), item: tr.render(), nontrivial, class }
}

fn one(ctx: &mut Ctx, tape: &[u32], tol: Tol) -> Result<(), Fail> {
    let mut t = Tape::new(tape);
    let c = gen_case(&mut t);
    ctx.count_eval();
    match check(&c.macro_name, &c.attr, &c.item, tol) {
        Ok(v) => {
            ctx.class(&format!("{}:{}", c.class, v));
            if v == "accepted" && c.nontrivial {
                ctx.nontrivial(&(&c.attr, &c.item));
                ctx.sample(|| c.json());
            }
            Ok(())
        }
        Err(e) if e.starts_with("HARNESS") => crate::ev::inconclusive(&format!("{e}\n{}", c.item)),
        Err(e) => Err(Fail::new(e, c.json())),
    }
}

/// Known-finding probes: the stored class still fails in the stored way => KNOWN-FINDING; differently => VIOLATION; passes => silent.
fn probe_known(ctx: &mut Ctx, key: &str, what: &str, must_contain: &str, probes: &[(&str, &str)]) {
    let mut still = 0;
    for (attr, item) in probes {
        ctx.count_eval();
        match check("entrait", attr, item, Tol::default()) {
            Ok(_) => {}
            Err(e) if e.starts_with("HARNESS") => crate::ev::inconclusive(&e),
            Err(e) if e.contains(must_contain) => still += 1,
            Err(e) => ctx.violation(
                &format!("known finding `{key}` now fails differently: {e}"),
                &json!({"engine": "E1", "macro": "entrait", "attr": attr, "item": item}),
            ),
        }
    }
    if still > 0 {
        ctx.known(&format!("key={key} {what} ({still}/{} probes still fail)", probes.len()));
    }
}

pub fn run(ctx: &mut Ctx) {
    ctx.rule = "cases = hand-written-style trait definitions decoded from a proptest choice tape (attributes/docs on trait and methods, visibility, unsafe, generics, \
                supertraits, where clauses, &self methods with every parameter pattern, async methods, with and without async_trait) x all trait-mode option sets; \
                non-trivial = accepted by the macro and the trait has >=1 attribute, `unsafe`, generics, a supertrait or a method attribute; distinct = distinct (attr, trait) text. \
                Exactly the two differences listed as open known findings (default body dropped, associated type dropped) are tolerated in the main search so that it continues behind them; they are probed separately and reported as KNOWN-FINDING."
        .into();
    let open = crate::ev::open_findings("C09");
    let tol = Tol {
        default_body_dropped: open.iter().any(|f| f.key == "trait-default-bodies-dropped"),
        assoc_type_dropped: open.iter().any(|f| f.key == "trait-assoc-types-dropped"),
    };
    ctx.extra.insert("tolerated_known_differences".into(), json!({"default_body_dropped": tol.default_body_dropped, "assoc_type_dropped": tol.assoc_type_dropped}));
    for f in &open {
        match f.key.as_str() {
            "trait-default-bodies-dropped" => probe_known(
                ctx,
                &f.key,
                &f.what,
                "default body of method",
                &[("", "trait T { fn m(&self) -> i32 { 7 } }"), ("delegate_by = ref", "pub trait T { fn a(&self); fn m(&self, x: i32) -> i32 { x + 1 } }"), ("TraitImpl, delegate_by = D", "trait T { fn m(&self) {} }")],
            ),
            "trait-assoc-types-dropped" => probe_known(
                ctx,
                &f.key,
                &f.what,
                "associated type",
                &[("", "trait T { type X; fn m(&self) -> i32; }"), ("", "pub trait T { type X: Clone + Send; }"), ("mockall", "trait T { fn m(&self); type Y; }")],
            ),
            other => crate::ev::inconclusive(&format!("known_findings.txt lists an open C09 finding with an unknown key: {other}")),
        }
    }
    if !fragment_leg(ctx) {
        return;
    }
    let cases = ctx.n(150_000, 3_000_000);
    run_tapes_par(ctx, 9, cases, 300, |c, tape| one(c, tape, tol));
}

/// E2: a trait that a `macro_rules!` macro assembles from fragments, entraited and plain side by side. The token comparison
/// above cannot tell an `$e:expr` fragment that keeps its invisible delimiters from one that has them on paper only (rustc
/// does not honour the delimiters of a group that a proc macro re-creates): what the default bodies *compute* can.
pub fn fragment_src() -> String {
    let methods = [
        ("mul", "u32", "$a * 2", "4"),
        ("neg", "i32", "-$a", "-2"),
        ("not", "bool", "!$c", "false"),
        ("meth", "String", "$a.to_string()", "String::from(\"2\")"),
        ("pow", "i8", "$l.pow(2)", "4"),
        ("cast", "u16", "$a as u16 * 3", "6"),
        ("cond", "u8", "if $s == SONE { 1 } else { 2 }", "1"),
        ("cond2", "u8", "if $c { 1 } else { 2 }", "1"),
        ("range", "Vec<u32>", "($a..$a + 2).collect()", "vec![2u32, 3]"),
        ("call", "u32", "$f(1)", "2"),
        ("tail", "u32", "$a", "2"),
        ("letx", "u32", "let x = $a; x * 2", "4"),
        ("arr", "[u8; $a * 3]", "[0; $a * 3]", "[0u8; 6]"),
        ("refd", "u32", "let g: &$t = &|| 5; g()", "5"),
    ];
    let mut s = String::from("#![allow(warnings)]\nuse crate::rt;\n#[derive(PartialEq, Debug)] pub struct S { pub x: u8 }\npub const SONE: S = S { x: 1 };\n");
    s.push_str("macro_rules! mk {\n    ($a:expr, $c:expr, $l:literal, $s:expr, $f:expr, $t:ty) => {\n");
    for (attr, name) in [("/*GEN*/ #[::entrait::entrait]\n", "Tr"), ("", "Plain")] {
        s.push_str(&format!("{attr}        pub trait {name} {{\n"));
        for (m, ty, body, _) in &methods {
            s.push_str(&format!("            fn {m}(&self) -> {ty} {{ {body} }}\n"));
        }
        s.push_str("            fn dynref(&self, x: &$t) -> u32 { x() }\n        }\n");
    }
    s.push_str("    };\n}\nmk!(1 + 1, 1 + 1 == 2, -2i8, S { x: 1 }, |x: u32| x + 1, dyn Fn() -> u32 + Send);\npub struct App;\n/*GEN*/ impl Tr for App {}\nimpl Plain for App {}\n");
    s.push_str("pub fn run() -> Vec<String> {\n    let mut fails: Vec<String> = vec![];\n");
    for (m, _, body, want) in &methods {
        s.push_str(&format!("    if Plain::{m}(&App) != {want} {{ fails.push(String::from(\"HARNESS: the plain trait computes something else for `{m}`\")); }}\n"));
        s.push_str(&format!("/*GEN*/ rt::expect_eq(&mut fails, \"default body `{{ {} }}` assembled from fragments: the entraited trait vs the plain one\", &Tr::{m}(&App), &Plain::{m}(&App));\n", body.replace('"', "'").replace('{', "{{").replace('}', "}}")));
        s.push_str(&format!("/*GEN*/ rt::expect_eq(&mut fails, \"the same through Impl<T>\", &Tr::{m}(&::entrait::Impl::new(App)), &Plain::{m}(&App));\n"));
    }
    s.push_str("/*GEN*/ rt::expect_eq(&mut fails, \"`&$t` parameter with `$t = dyn Fn() -> u32 + Send`\", &Tr::dynref(&::entrait::Impl::new(App), &|| 7), &7u32);\n");
    s.push_str("    fails\n}\n");
    s
}

fn fragment_leg(ctx: &mut Ctx) -> bool {
    use crate::e2::{Batch, Opts};
    let src = fragment_src();
    let twin: String = src.lines().filter(|l| !l.starts_with("/*GEN*/")).collect::<Vec<_>>().join("\n");
    let mut b = Batch::new("c09-fragments", Opts { feature_unimock: false, members: 1, ..Default::default() });
    b.add("c00000", src.clone());
    b.add("c00001", twin);
    let out = b.build_and_run();
    b.cleanup();
    ctx.count_eval();
    if out.compile_failed.contains_key("c00001") || out.ran.get("c00001").map(|r| r.0 != "ok").unwrap_or(true) {
        crate::ev::inconclusive("c09-fragments: the plain twin of the fragment program does not compile or run");
    }
    if let Some(d) = out.compile_failed.get("c00000") {
        ctx.violation(
            &format!("a trait assembled from `macro_rules!` fragments does not compile once it is entraited (the plain twin does): {}", d.first().map(|x| format!("{} {}", x.code, x.message)).unwrap_or_default()),
            &json!({"engine": "E2", "kind": "fragments", "src": src}),
        );
        return false;
    }
    match out.ran.get("c00000") {
        Some((st, msg)) if st != "ok" => {
            if msg.contains("HARNESS") {
                crate::ev::inconclusive(&format!("c09-fragments: {msg}"));
            }
            ctx.violation(&format!("default bodies assembled from `macro_rules!` fragments do not compute what the plain trait computes: {msg}"), &json!({"engine": "E2", "kind": "fragments", "src": src}));
            false
        }
        Some(_) => {
            ctx.class("e2:default_bodies_and_signatures_from_macro_rules_fragments");
            true
        }
        None => crate::ev::inconclusive("c09-fragments: the program produced no result"),
    }
}

pub fn replay(ctx: &mut Ctx, v: &Value) {
    use super::s;
    if v.get("kind").and_then(|k| k.as_str()) == Some("fragments") {
        use crate::e2::{Batch, Opts};
        let mut b = Batch::new("c09-fragments-replay", Opts { feature_unimock: false, members: 1, ..Default::default() });
        b.add("c00000", s(v, "src"));
        let out = b.build_and_run();
        b.cleanup();
        ctx.count_eval();
        if out.compile_failed.values().next().is_some() {
            ctx.violation("replayed trait assembled from `macro_rules!` fragments does not compile", v);
        } else if let Some((st, msg)) = out.ran.get("c00000") {
            if st != "ok" {
                ctx.violation(&format!("default bodies assembled from `macro_rules!` fragments do not compute what the plain trait computes: {msg}"), v);
            }
        }
        return;
    }
    ctx.count_eval();
    match check(&s(v, "macro"), &s(v, "attr"), &s(v, "item"), Tol::default()) {
        Ok(_) => {}
        Err(e) if e.starts_with("HARNESS") => crate::ev::inconclusive(&e),
        Err(e) => ctx.violation(&e, v),
    }
}
