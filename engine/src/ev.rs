//! Run context: tier/seed, evidence accumulation, replay files, known findings, exit codes.

use serde_json::{json, Map, Value};
use std::collections::{BTreeMap, HashSet};
use std::hash::{Hash, Hasher};
use std::path::{Path, PathBuf};
use std::time::Instant;

pub const EXIT_OK: i32 = 0;
pub const EXIT_VIOLATION: i32 = 1;
pub const EXIT_INCONCLUSIVE: i32 = 2;

pub fn verif_root() -> PathBuf {
    std::env::var("VERIF_ROOT").map(PathBuf::from).unwrap_or_else(|_| PathBuf::from("/verif"))
}

pub fn repo_root() -> PathBuf {
    std::env::var("VERIF_REPO").map(PathBuf::from).unwrap_or_else(|_| PathBuf::from("/repo"))
}

pub fn stable_hash<T: Hash>(t: &T) -> u64 {
    // SipHash with fixed zero keys: deterministic across processes
    #[allow(deprecated)]
    let mut h = std::hash::SipHasher::new();
    t.hash(&mut h);
    h.finish()
}

#[derive(Clone, Copy, PartialEq, Eq, Debug)]
pub enum Tier {
    Quick,
    Thorough,
}

pub struct Ctx {
    pub property: String,
    pub tier: Tier,
    pub seed: u64,
    pub start: Instant,
    pub evaluations: u64,
    pub nontrivial: HashSet<u64>,
    pub rule: String,
    pub samples: Vec<Value>,
    pub max_samples: usize,
    pub classes: BTreeMap<String, u64>,
    pub extra: Map<String, Value>,
    pub assumptions: Vec<String>,
    pub violations: Vec<(String, PathBuf)>,
    pub known_hit: Vec<String>,
    pub exhaustive: Option<bool>,
    /// set once a failure has been seen inside a proptest run: the closure re-runs while
    /// shrinking and those evaluations must not be counted
    pub frozen: bool,
    pub replay_mode: bool,
}

impl Ctx {
    pub fn new(property: &str, tier: Tier, seed: u64) -> Self {
        Self {
            property: property.to_string(),
            tier,
            seed,
            start: Instant::now(),
            evaluations: 0,
            nontrivial: HashSet::new(),
            rule: String::new(),
            samples: Vec::new(),
            max_samples: 6,
            classes: BTreeMap::new(),
            extra: Map::new(),
            assumptions: Vec::new(),
            violations: Vec::new(),
            known_hit: Vec::new(),
            exhaustive: None,
            frozen: false,
            replay_mode: false,
        }
    }

    pub fn quick(&self) -> bool {
        self.tier == Tier::Quick
    }

    /// pick a work amount by tier
    pub fn n(&self, quick: u64, thorough: u64) -> u64 {
        if self.quick() {
            quick
        } else {
            thorough
        }
    }

    pub fn count_eval(&mut self) {
        if !self.frozen {
            self.evaluations += 1;
        }
    }

    pub fn class(&mut self, name: &str) {
        if !self.frozen {
            *self.classes.entry(name.to_string()).or_insert(0) += 1;
        }
    }

    pub fn class_n(&mut self, name: &str, n: u64) {
        if !self.frozen {
            *self.classes.entry(name.to_string()).or_insert(0) += n;
        }
    }

    pub fn nontrivial<T: Hash>(&mut self, key: &T) {
        if !self.frozen {
            self.nontrivial.insert(stable_hash(key));
        }
    }

    /// keep a spread of samples: the first few non-trivial ones at exponentially growing gaps
    pub fn sample(&mut self, v: impl FnOnce() -> Value) {
        if self.frozen {
            return;
        }
        let n = self.nontrivial.len() as u64;
        if self.samples.len() < self.max_samples && (n <= 2 || n.is_power_of_two() || self.samples.len() < 3) {
            let val = v();
            if !self.samples.contains(&val) {
                self.samples.push(val);
            }
        }
    }

    pub fn merge(&mut self, other: Ctx) {
        self.evaluations += other.evaluations;
        self.nontrivial.extend(other.nontrivial);
        for (k, v) in other.classes {
            *self.classes.entry(k).or_insert(0) += v;
        }
        for smp in other.samples {
            if self.samples.len() < self.max_samples && !self.samples.contains(&smp) {
                self.samples.push(smp);
            }
        }
        self.violations.extend(other.violations);
        for k in other.known_hit {
            if !self.known_hit.contains(&k) {
                self.known_hit.push(k);
            }
        }
    }

    pub fn replay_dir(&self) -> PathBuf {
        verif_root().join("replays").join(&self.property)
    }

    /// Record a violation: writes the replay file and prints the VIOLATION line.
    pub fn violation(&mut self, what: &str, replay: &Value) {
        let mut body = replay.clone();
        if let Some(obj) = body.as_object_mut() {
            obj.insert("property".into(), json!(self.property));
            obj.insert("what".into(), json!(what));
        }
        let text = serde_json::to_string_pretty(&body).unwrap();
        let dir = if self.replay_mode { verif_root().join("work").join("replay-out") } else { verif_root().join("work").join("violations").join(&self.property) };
        let _ = std::fs::create_dir_all(&dir);
        let path = dir.join(format!("{:016x}.json", stable_hash(&text)));
        let _ = std::fs::write(&path, &text);
        println!("VIOLATION property={} replay={}", self.property, path.display());
        VIOLATION_PRINTED.store(true, std::sync::atomic::Ordering::SeqCst);
        println!("  what: {}", what.lines().next().unwrap_or(""));
        self.violations.push((what.to_string(), path));
    }

    pub fn known(&mut self, what: &str) {
        let line = format!("KNOWN-FINDING: property={} {}", self.property, what);
        if !self.known_hit.contains(&line) {
            println!("{line}");
            self.known_hit.push(line);
        }
    }

    pub fn write_evidence(&self) -> Result<(), String> {
        let mut cov = Map::new();
        cov.insert("evaluations".into(), json!(self.evaluations));
        cov.insert("distinct_nontrivial".into(), json!(self.nontrivial.len()));
        cov.insert("rule".into(), json!(self.rule));
        cov.insert("samples".into(), Value::Array(self.samples.clone()));
        cov.insert("classes".into(), json!(self.classes));
        if let Some(e) = self.exhaustive {
            cov.insert("exhaustive".into(), json!(e));
        }
        cov.insert("known_findings_reported".into(), json!(self.known_hit));
        for (k, v) in &self.extra {
            cov.insert(k.clone(), v.clone());
        }
        let ev = json!({
            "property_id": self.property,
            "tier": if self.quick() { "quick" } else { "thorough" },
            "seed": self.seed,
            "level": "exploration",
            "coverage": Value::Object(cov),
            "assumptions": self.assumptions,
            "wall_s": (self.start.elapsed().as_secs_f64() * 100.0).round() / 100.0,
            "violations": self.violations.len(),
        });
        // VERIF_EVIDENCE_DIR: mutant runs (tools/mutant.sh) must not overwrite the evidence of the real tree
        let dir = std::env::var("VERIF_EVIDENCE_DIR").map(PathBuf::from).unwrap_or_else(|_| verif_root().join("evidence"));
        std::fs::create_dir_all(&dir).map_err(|e| e.to_string())?;
        let path = dir.join(format!("{}.json", self.property));
        std::fs::write(&path, serde_json::to_string_pretty(&ev).unwrap()).map_err(|e| e.to_string())
    }

    pub fn finish(&self) -> i32 {
        if self.replay_mode {
            return if self.violations.is_empty() { EXIT_OK } else { EXIT_VIOLATION };
        }
        if let Err(e) = self.write_evidence() {
            eprintln!("cannot write evidence: {e}");
            return EXIT_INCONCLUSIVE;
        }
        if !self.violations.is_empty() {
            return EXIT_VIOLATION;
        }
        println!(
            "OK property={} tier={:?} seed={} evaluations={} distinct_nontrivial={} wall_s={:.1}",
            self.property,
            self.tier,
            self.seed,
            self.evaluations,
            self.nontrivial.len(),
            self.start.elapsed().as_secs_f64()
        );
        EXIT_OK
    }
}

/// set once a `VIOLATION` line has been printed by this process
pub static VIOLATION_PRINTED: std::sync::atomic::AtomicBool = std::sync::atomic::AtomicBool::new(false);

/// exit 2 with a reason: harness trouble, never a verdict on the property.
/// (A violation that was already established and printed stays the verdict: exit 1.)
pub fn inconclusive(msg: &str) -> ! {
    println!("INCONCLUSIVE: {msg}");
    if VIOLATION_PRINTED.load(std::sync::atomic::Ordering::SeqCst) {
        std::process::exit(1)
    }
    std::process::exit(EXIT_INCONCLUSIVE)
}

// ---- known findings ----

#[derive(Clone, Debug)]
pub struct Finding {
    pub property: String,
    pub key: String,
    pub status: String, // open | fixed
    pub what: String,
    pub raw: Value,
}

/// `/verif/known_findings.txt` (committed, never written at run time), one finding per line:
///   `open: property=<id> key=<key> <what fails>`   - reported as KNOWN-FINDING while it still fails
///   `fixed: property=<id> <commit> <what failed>`  - suppresses nothing
pub fn load_findings() -> Vec<Finding> {
    let path = verif_root().join("known_findings.txt");
    let text = match std::fs::read_to_string(&path) {
        Ok(t) => t,
        Err(_) => return vec![],
    };
    let mut out = vec![];
    for line in text.lines() {
        let line = line.trim();
        if line.is_empty() || line.starts_with('#') {
            continue;
        }
        let (status, rest) = match line.split_once(':') {
            Some((s, r)) if s == "open" || s == "fixed" => (s.to_string(), r.trim()),
            _ => inconclusive(&format!("known_findings.txt: bad line: {line}")),
        };
        let mut property = String::new();
        let mut key = String::new();
        let mut what = vec![];
        for w in rest.split_whitespace() {
            if let (true, Some(p)) = (property.is_empty(), w.strip_prefix("property=")) {
                property = p.to_string();
            } else if let (true, Some(k)) = (key.is_empty() && what.is_empty(), w.strip_prefix("key=")) {
                key = k.to_string();
            } else {
                what.push(w);
            }
        }
        out.push(Finding { property, key, status, what: what.join(" "), raw: Value::Null });
    }
    out
}

pub fn open_findings(property: &str) -> Vec<Finding> {
    load_findings().into_iter().filter(|f| f.property == property && f.status == "open").collect()
}

pub fn read_json(path: &Path) -> Result<Value, String> {
    let text = std::fs::read_to_string(path).map_err(|e| format!("{}: {e}", path.display()))?;
    serde_json::from_str(&text).map_err(|e| format!("{}: {e}", path.display()))
}

/// committed regression inputs: /verif/replays/<ID>/*.json
pub fn committed_replays(property: &str) -> Vec<(PathBuf, Value)> {
    let dir = verif_root().join("replays").join(property);
    let mut files: Vec<PathBuf> = std::fs::read_dir(&dir)
        .map(|rd| rd.flatten().map(|e| e.path()).filter(|p| p.extension().map(|e| e == "json").unwrap_or(false)).collect())
        .unwrap_or_default();
    files.sort();
    files.into_iter().filter_map(|p| read_json(&p).ok().map(|v| (p, v))).collect()
}
