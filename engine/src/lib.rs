#![allow(clippy::all)]
pub mod drive;
pub mod e1;
pub mod ev;
pub mod gen;
pub mod props;
pub mod tape;
pub mod tok;
