//! C03 — every supported signature expands to compiling code with the same call type (E2: compile verdict + witnesses).
//!
//! The generator owns a model of the *original* signature and derives from it (never from the expansion):
//!  * one fn-pointer type; the client coerces both the fn item and the trait method (`<A as Trait<..>>::f`) to it,
//!  * a witness fn that takes the arguments as its own parameters and calls the method, with the declared return type
//!    (sync) or an exact `Future::Output` ascription plus `is_send` (async).
//! A *plain twin* (same fn without the attribute, same direct-call witnesses) guards against generator bugs: if the twin
//! does not compile the case is discarded and counted, never judged.

use crate::e2::{Batch, Diag, Opts};
use crate::ev::Ctx;
use crate::tape::Tape;
use serde_json::{json, Value};
use std::collections::BTreeMap;

#[derive(Clone, Copy, Debug, PartialEq, Eq)]
pub enum Deps {
    RefGeneric,
    RefImpl,
    ValGeneric,
    ValImpl,
    ConcreteRef,
    ConcreteRefNamed,
    ConcreteVal,
    NoDeps,
}

#[derive(Clone, Debug, PartialEq)]
pub enum PTy {
    I32,
    Owned, // String
    RefElided,
    RefNamed(usize),
    MutVec,
    Gen,
    RefGenNamed(usize),
    ArrConst,
    ImplFn,
    BoxDyn,
    SliceNamed(usize),
    /// further mentions of the dependency's own type parameter `D` (named-generic deps only)
    DepsOpt,
    DepsVec,
    /// `PhantomData<D>`: the dependency's type parameter again, in a position that does not need it `Sized`
    DepsPhantom,
    /// `P::Out`: the only mention of type parameter `P` is through an associated type (nothing infers `P` from it)
    Proj,
    /// `&(dyn for<'h> LtLabel<'h> + Sync)`: an elided reference to a type that binds a lifetime of its own
    RefDynHrtb,
    /// `impl LtLabel<'l>`: a lifetime inside an argument-position `impl Trait` is none of the input's (it is a type parameter's)
    ImplLt(usize),
    /// `&'l Holder<'l>`: one parameter that mentions one named lifetime twice has one lifetime
    RefNamedTwice(usize),
    /// `W::<&u8>(p): W<&u8>`: the elided reference inside the *pattern* is not an input lifetime, the one in the type is
    PatTurbofish,
}

fn is_elided_ref(p: &PTy) -> bool {
    matches!(p, PTy::RefElided | PTy::RefDynHrtb | PTy::PatTurbofish)
}

#[derive(Clone, Debug, PartialEq)]
pub enum RTy {
    Unit,
    I32,
    Owned,
    /// `&str` borrowed from the dependency (elided lifetime when the deps reference is the only reference, else named)
    FromDeps,
    /// `&'l str` borrowed from the argument with named lifetime l
    FromArg(usize),
    /// elided borrow from the single elided reference argument (no_deps / by-value deps only)
    FromElidedArg,
    Gen,
    OptFromArg(usize),
    /// `Option<D>`: the dependency's type parameter in the return type
    DepsOpt,
    /// `-> &str` (elided) where the only input lifetime is the *named* one of argument l (no_deps / by-value deps only)
    FromNamedArgElided(usize),
    /// `-> Result<&str, &'static str>`: like FromElidedArg, next to a lifetime that is written in the output only
    ResFromElidedArgOrStatic,
}

#[derive(Clone, Debug)]
pub struct Sig {
    /// spelling of the concrete dependency type (ident, path, generic instantiation)
    pub concrete_ty: &'static str,
    pub deps: Deps,
    pub bounds: Vec<usize>,
    pub bounds_in_where: usize,
    /// `?Sized` among the deps bounds (by-reference generic / impl deps only)
    pub deps_maybe_sized: bool,
    /// the `?Sized` of the deps parameter may be written in the where clause (`where D: ?Sized + ..`) when all its bounds are
    pub deps_relaxed_in_where: bool,
    /// `fn f<'d, D: .. + 'd>(deps: &'d D)`: a lifetime bound on the deps parameter (RefGeneric only)
    pub deps_lifetime_bound: bool,
    pub n_lifetimes: usize,
    /// lifetime predicates `'l1: 'l0` (makes both early-bound)
    pub lt_pred: bool,
    pub has_gen: bool,
    pub gen_bound_where: bool,
    /// write `T: 'l` for `&'l T` parameters explicitly (makes 'l early-bound) instead of relying on implied bounds
    pub explicit_outlives: bool,
    /// a (trivially true) where predicate that mentions lifetime 'a only inside a delimited group: `(&'a u8, u8): Clone`, ..
    pub grouped_lt_pred: Option<usize>,
    /// a (trivially true) where predicate over a bounded type that is not a plain parameter name
    pub extra_where: Option<usize>,
    /// position of the dependency's type parameter among the type / const parameters (modulo their number)
    pub deps_param_pos: usize,
    pub has_const: bool,
    pub params: Vec<PTy>,
    pub ret: RTy,
    pub is_async: bool,
    pub is_unsafe: bool,
    pub extern_c: bool,
    /// spelled as a bare `extern` (which means `extern "C"`)
    pub extern_bare: bool,
    pub maybe_send_off: bool,
    pub vis: &'static str,
    /// `T: 'l` for `&'l T` parameters is written inline where `T` is declared (`T: Default + 'l`), not in the where clause
    pub outlives_inline: bool,
    /// the extra type parameter's bounds mention the dependency's type parameter (`T: Default + Rel<D>`; named-generic deps)
    pub gen_mentions_deps: bool,
    /// a type parameter `P` and a const parameter `K` that appear in no parameter type and not in the return type:
    /// callers name them (turbofish / trait arguments), nothing can infer them
    pub phantom: bool,
    /// with `phantom`: `P: Proj` is mentioned, but only as `P::Out` in a parameter type (and there is no `K`)
    pub phantom_proj: bool,
    /// the extra type parameter is only used behind references and says `?Sized` (inline or, with `gen_bound_where`, in the where clause)
    pub gen_maybe_sized: bool,
}

const LT: [&str; 3] = ["'a", "'b", "'c"];
/// where predicates whose bounded type is a qualified / absolute / multi-segment path or not a path at all
const EXTRA_PREDS: [&str; 5] = ["::core::primitive::u8: Copy", "core::primitive::u16: Copy", "<u8 as ::core::ops::Add>::Output: Copy", "[u8; 3]: Copy", "(u8, i8): Copy"];
/// where predicates over fn lifetime 'a whose lifetime sits inside `(..)` / `[..]` only (they must stay on the method)
/// (the last three: a lifetime-free group first, the lifetime after it)
const GROUPED_PREDS: [&str; 7] = [
    "(&'a u8, u8): Clone",
    "[&'a u8; 1]: Clone",
    "fn(&'a u8) -> u8: Copy",
    "Box<dyn Fn(&'a u8) -> u8>: Sized",
    "(u8, i8): LtLabel<'a>",
    "[u8; 2]: LtLabel<'a>",
    "fn(u8) -> u8: LtLabel<'a>",
];

impl Sig {
    fn deps_has_ref(&self) -> bool {
        matches!(self.deps, Deps::RefGeneric | Deps::RefImpl | Deps::ConcreteRef | Deps::ConcreteRefNamed)
    }
    fn deps_by_value(&self) -> bool {
        matches!(self.deps, Deps::ValGeneric | Deps::ValImpl | Deps::ConcreteVal)
    }
    fn concrete(&self) -> bool {
        matches!(self.deps, Deps::ConcreteRef | Deps::ConcreteRefNamed | Deps::ConcreteVal)
    }

    fn pty_src(&self, p: &PTy) -> String {
        match p {
            PTy::I32 => "i32".into(),
            PTy::Owned => "String".into(),
            PTy::RefElided => "&str".into(),
            PTy::RefNamed(l) => format!("&{} str", LT[*l]),
            PTy::MutVec => "&mut Vec<i32>".into(),
            PTy::Gen => "T".into(),
            PTy::RefGenNamed(l) => format!("&{} T", LT[*l]),
            PTy::ArrConst => "[u8; N]".into(),
            PTy::ImplFn => format!("impl Fn(i32) -> i32{}", if self.is_async && !self.maybe_send_off { " + Send" } else { "" }),
            PTy::BoxDyn => "Box<dyn Fn() + Send>".into(),
            PTy::SliceNamed(l) => format!("&{} [u8]", LT[*l]),
            PTy::DepsOpt => "Option<D>".into(),
            PTy::DepsVec => "Vec<D>".into(),
            PTy::DepsPhantom => "PhantomData<D>".into(),
            PTy::Proj => "P::Out".into(),
            PTy::RefDynHrtb => "&(dyn for<'h> LtLabel<'h> + Sync)".into(),
            PTy::ImplLt(l) => format!("impl LtLabel<{}>{}", LT[*l], if self.is_async && !self.maybe_send_off { " + Send" } else { "" }),
            PTy::RefNamedTwice(l) => format!("&{0} Holder<{0}>", LT[*l]),
            PTy::PatTurbofish => "W<&u8>".into(),
        }
    }

    fn rty_src(&self) -> String {
        match &self.ret {
            RTy::Unit => String::new(),
            RTy::I32 => " -> i32".into(),
            RTy::Owned => " -> String".into(),
            RTy::FromDeps => match self.deps {
                Deps::RefGeneric if self.deps_lifetime_bound => " -> &'d str".into(),
                Deps::ConcreteRefNamed => " -> &'d str".into(),
                _ => " -> &str".into(),
            },
            RTy::FromArg(l) => format!(" -> &{} str", LT[*l]),
            RTy::FromElidedArg | RTy::FromNamedArgElided(_) => " -> &str".into(),
            RTy::ResFromElidedArgOrStatic => " -> Result<&str, &'static str>".into(),
            RTy::Gen => " -> T".into(),
            RTy::OptFromArg(l) => format!(" -> Option<&{} str>", LT[*l]),
            RTy::DepsOpt => " -> Option<D>".into(),
        }
    }

    fn generics_src(&self) -> (String, String) {
        let (g, w) = self.generics_parts();
        (if g.is_empty() { String::new() } else { format!("<{}>", g.join(", ")) }, if w.is_empty() { String::new() } else { format!(" where {}", w.join(", ")) })
    }

    /// explicit generic arguments for naming the fn item: `::<_, i64, 3, u16, 7>` in declaration order (only needed, and only
    /// written, when something cannot be inferred)
    fn turbofish(&self) -> String {
        if !self.phantom {
            return String::new();
        }
        let (g, _) = self.generics_parts();
        let args: Vec<&str> = g
            .iter()
            .filter(|e| !e.starts_with('\''))
            .map(|e| match e.split(':').next().unwrap_or("").trim() {
                "D" => "_",
                "T" => "i64",
                "const N" => "3",
                "P" => "u16",
                "const K" => "7",
                other => panic!("turbofish: {other}"),
            })
            .collect();
        format!("::<{}>", args.join(", "))
    }

    fn generics_parts(&self) -> (Vec<String>, Vec<String>) {
        let mut g: Vec<String> = vec![];
        let mut w: Vec<String> = vec![];
        if self.deps == Deps::ConcreteRefNamed {
            g.push("'d".into());
        }
        for l in 0..self.n_lifetimes {
            g.push(LT[l].to_string());
        }
        if self.lt_pred && self.n_lifetimes >= 2 {
            w.push("'b: 'a".into());
        }
        if let Some(k) = self.extra_where {
            w.push(EXTRA_PREDS[k % EXTRA_PREDS.len()].to_string());
        }
        if let Some(k) = self.grouped_lt_pred {
            w.push(GROUPED_PREDS[k % GROUPED_PREDS.len()].to_string());
        }
        let mut dep_bounds: Vec<String> = self.bounds.iter().map(|b| format!("B{b}")).collect();
        if self.deps_maybe_sized && self.deps == Deps::RefGeneric {
            dep_bounds.insert(0, "?Sized".into());
        }
        if self.deps_lifetime_bound && self.deps == Deps::RefGeneric {
            g.insert(0, "'d".into());
            dep_bounds.push("'d".into());
        }
        match self.deps {
            Deps::RefGeneric | Deps::ValGeneric => {
                let k = self.bounds_in_where.min(dep_bounds.len());
                let mut split = dep_bounds.len() - k;
                if self.deps_maybe_sized && self.deps == Deps::RefGeneric {
                    // the relaxed bound is written where the parameter is declared, or with all the others in the where clause
                    split = if self.deps_relaxed_in_where { 0 } else { split.max(1) };
                }
                let k = dep_bounds.len() - split;
                g.push(if split == 0 { "D".into() } else { format!("D: {}", dep_bounds[..split].join(" + ")) });
                if k > 0 {
                    w.push(format!("D: {}", dep_bounds[split..].join(" + ")));
                }
            }
            _ => {}
        }
        if self.has_gen {
            let mut b: Vec<&str> = vec!["Default"];
            if self.gen_maybe_sized && !self.params.contains(&PTy::Gen) && self.ret != RTy::Gen {
                b.insert(0, "?Sized");
            }
            if self.is_async && !self.maybe_send_off {
                b.push("Send");
                b.push("Sync");
            }
            if self.gen_mentions_deps && !self.deps_maybe_sized && matches!(self.deps, Deps::RefGeneric | Deps::ValGeneric) {
                b.push("Rel<D>");
            }
            let mut inline_outlives = false;
            if self.explicit_outlives && self.params.iter().any(|p| matches!(p, PTy::RefGenNamed(_))) {
                // `&'l T` needs `T: 'l`; written explicitly in the where clause, or inline where T is declared
                for p in &self.params {
                    if let PTy::RefGenNamed(l) = p {
                        if self.outlives_inline {
                            if !b.contains(&LT[*l]) {
                                b.push(LT[*l]);
                            }
                            inline_outlives = true;
                            continue;
                        }
                        let pred = format!("T: {}", LT[*l]);
                        if !w.contains(&pred) {
                            w.push(pred);
                        }
                    }
                }
            }
            if self.gen_bound_where && !inline_outlives {
                g.push("T".into());
                w.push(format!("T: {}", b.join(" + ")));
            } else {
                g.push(format!("T: {}", b.join(" + ")));
            }
        }
        if self.has_const {
            g.push("const N: usize".into());
        }
        if self.phantom && self.phantom_proj {
            g.push("P: Proj".into());
        } else if self.phantom {
            g.push("P: Default".into());
            g.push("const K: usize".into());
        }
        // the dependency's type parameter need not be the first one: it may follow other type / const parameters
        if let Some(at) = g.iter().position(|p| p == "D" || p.starts_with("D:")) {
            let first = g.iter().position(|p| !p.starts_with('\'')).unwrap_or(0);
            let d = g.remove(at);
            let slots = g.len() - first + 1;
            g.insert(first + (self.deps_param_pos % slots), d);
        }
        (g, w)
    }

    fn deps_param(&self) -> Option<String> {
        let b: Vec<String> = self.bounds.iter().map(|b| format!("B{b}")).collect();
        let ib = if b.is_empty() { "Sized".to_string() } else { b.join(" + ") };
        Some(match self.deps {
            Deps::RefGeneric if self.deps_lifetime_bound => "deps: &'d D".into(),
            Deps::RefGeneric => "deps: &D".into(),
            Deps::ValGeneric => "deps: D".into(),
            Deps::RefImpl if self.deps_maybe_sized => format!("deps: &(impl ?Sized + {ib})"),
            Deps::RefImpl => format!("deps: &(impl {ib})"),
            Deps::ValImpl => format!("deps: impl {ib}"),
            Deps::ConcreteRef => format!("deps: &{}", self.concrete_ty),
            Deps::ConcreteRefNamed => format!("deps: &'d {}", self.concrete_ty),
            Deps::ConcreteVal => format!("deps: {}", self.concrete_ty),
            Deps::NoDeps => return None,
        })
    }

    pub fn fn_src(&self, name: &str) -> String {
        let (g, w) = self.generics_src();
        let mut ps: Vec<String> = vec![];
        if let Some(d) = self.deps_param() {
            ps.push(d);
        }
        for (i, p) in self.params.iter().enumerate() {
            if *p == PTy::PatTurbofish {
                ps.push(format!("W::<&u8>(p{i}): {}", self.pty_src(p)));
            } else {
                ps.push(format!("p{i}: {}", self.pty_src(p)));
            }
        }
        let quals = format!("{}{}{}", if self.is_async { "async " } else { "" }, if self.is_unsafe { "unsafe " } else { "" }, if self.extern_c && self.extern_bare { "extern " } else if self.extern_c { "extern \"C\" " } else { "" });
        let vis = if self.vis.is_empty() { String::new() } else { format!("{} ", self.vis) };
        format!("{vis}{quals}fn {name}{g}({}){}{w} {{ todo!() }}", ps.join(", "), self.rty_src())
    }

    // ----- witnesses (derived from the model) -----

    /// receiver type of the trait method as seen by a caller
    fn recv_ty(&self, lt: &str) -> String {
        match self.deps {
            Deps::RefGeneric if self.deps_lifetime_bound => "&'d A".into(),
            Deps::RefGeneric | Deps::RefImpl | Deps::NoDeps => format!("&{lt} A"),
            Deps::ValGeneric | Deps::ValImpl => "A".into(),
            Deps::ConcreteRef => format!("&{lt} {}", self.concrete_ty),
            Deps::ConcreteRefNamed => format!("&'d {}", self.concrete_ty),
            Deps::ConcreteVal => self.concrete_ty.to_string(),
        }
    }

    fn self_ty(&self) -> &'static str {
        if self.concrete() {
            self.concrete_ty
        } else {
            "A"
        }
    }

    /// instantiated parameter type inside a witness (T := i64, N := 3, impl Fn := fn pointer); `e` names elided lifetimes
    fn pty_inst(&self, p: &PTy, i: usize, elided_as: &dyn Fn(usize) -> String) -> String {
        match p {
            PTy::RefElided => format!("&{} str", elided_as(i)),
            PTy::RefDynHrtb => format!("&{} (dyn for<'h> LtLabel<'h> + Sync)", elided_as(i)),
            PTy::ImplLt(_) => "(u8, i8)".into(),
            PTy::PatTurbofish => format!("W<&{} u8>", elided_as(i)),
            PTy::Gen => "i64".into(),
            PTy::RefGenNamed(l) => format!("&{} i64", LT[*l]),
            PTy::ArrConst => "[u8; 3]".into(),
            PTy::ImplFn => "fn(i32) -> i32".into(),
            PTy::DepsOpt => "Option<A>".into(),
            PTy::DepsVec => "Vec<A>".into(),
            PTy::DepsPhantom => "PhantomData<A>".into(),
            PTy::Proj => "u8".into(),
            other => self.pty_src(other),
        }
    }

    fn rty_inst(&self, deps_lt: &str, elided_as: &dyn Fn(usize) -> String) -> String {
        match &self.ret {
            RTy::Unit => "()".into(),
            RTy::I32 => "i32".into(),
            RTy::Owned => "String".into(),
            RTy::FromDeps => format!("&{deps_lt} str"),
            RTy::FromArg(l) | RTy::FromNamedArgElided(l) => format!("&{} str", LT[*l]),
            RTy::FromElidedArg => {
                let i = self.params.iter().position(is_elided_ref).unwrap_or(0);
                format!("&{} str", elided_as(i))
            }
            RTy::ResFromElidedArgOrStatic => {
                let i = self.params.iter().position(is_elided_ref).unwrap_or(0);
                format!("Result<&{} str, &'static str>", elided_as(i))
            }
            RTy::Gen => "i64".into(),
            RTy::OptFromArg(l) => format!("Option<&{} str>", LT[*l]),
            RTy::DepsOpt => "Option<A>".into(),
        }
    }

    /// lifetimes that are early-bound in the original fn (appear in a where clause / bound): they cannot be quantified in a
    /// fn-pointer type and are taken from the enclosing witness fn instead
    fn early_bound(&self) -> Vec<String> {
        let mut v = vec![];
        if self.deps_lifetime_bound && self.deps == Deps::RefGeneric {
            v.push("'d".to_string());
        }
        if self.lt_pred && self.n_lifetimes >= 2 {
            v.push("'a".to_string());
            v.push("'b".to_string());
        }
        if self.grouped_lt_pred.is_some() && !v.contains(&"'a".to_string()) {
            v.push("'a".to_string());
        }
        for p in self.params.iter().filter(|_| self.explicit_outlives) {
            if let PTy::RefGenNamed(l) = p {
                // `T: 'l` in the where clause makes 'l early-bound
                if !v.contains(&LT[*l].to_string()) {
                    v.push(LT[*l].to_string());
                }
            }
        }
        v
    }

    fn trait_args(&self) -> String {
        let mut a = vec![];
        if self.has_gen {
            a.push("i64");
        }
        if self.has_const {
            a.push("3");
        }
        if self.phantom {
            a.push("u16");
            if !self.phantom_proj {
                a.push("7");
            }
        }
        if a.is_empty() {
            String::new()
        } else {
            format!("<{}>", a.join(", "))
        }
    }

    /// (pointer type of the fn item, pointer type of the trait method, generics of the enclosing witness fn)
    pub fn ptr_types(&self) -> (String, String, String) {
        let early = self.early_bound();
        let mut hr: Vec<String> = vec![];
        let named_d = self.deps == Deps::ConcreteRefNamed || (self.deps == Deps::RefGeneric && self.deps_lifetime_bound);
        let deps_lt = if named_d { "'d".to_string() } else { "'x".to_string() };
        if self.deps_has_ref() && !named_d {
            hr.push("'x".into());
        }
        if self.deps == Deps::ConcreteRefNamed {
            hr.push("'d".into());
        }
        for l in 0..self.n_lifetimes {
            if !early.contains(&LT[l].to_string()) {
                hr.push(LT[l].to_string());
            }
        }
        let elided = |i: usize| format!("'e{i}");
        for (i, p) in self.params.iter().enumerate() {
            if is_elided_ref(p) {
                hr.push(elided(i));
            }
        }
        let params: Vec<String> = self.params.iter().enumerate().map(|(i, p)| self.pty_inst(p, i, &elided)).collect();
        let ret = self.rty_inst(&deps_lt, &elided);
        let quals = format!("{}{}", if self.is_unsafe { "unsafe " } else { "" }, if self.extern_c { "extern \"C\" " } else { "" });
        let for_ = |v: &Vec<String>| if v.is_empty() { String::new() } else { format!("for<{}> ", v.join(", ")) };
        let mut direct_ps = vec![];
        if self.deps != Deps::NoDeps {
            direct_ps.push(self.recv_ty(&deps_lt));
        }
        direct_ps.extend(params.iter().cloned());
        let direct = format!("{}{quals}fn({}) -> {ret}", for_(&hr), direct_ps.join(", "));
        // the method always has a receiver; for no_deps it is an extra `&A`
        let mut hr_via = hr.clone();
        let mut via_ps = vec![];
        if self.deps == Deps::NoDeps {
            hr_via.insert(0, "'x".into());
            via_ps.push("&'x A".to_string());
        } else {
            via_ps.push(self.recv_ty(&deps_lt));
        }
        via_ps.extend(params.iter().cloned());
        let via = format!("{}{quals}fn({}) -> {ret}", for_(&hr_via), via_ps.join(", "));
        let early: Vec<String> = early;
        let wg = if early.is_empty() {
            String::new()
        } else if self.lt_pred {
            let mut e: Vec<String> = early.iter().map(|l| if l == "'b" { "'b: 'a".to_string() } else { l.clone() }).collect();
            e.sort();
            format!("<{}>", e.join(", "))
        } else {
            format!("<{}>", early.join(", "))
        };
        (direct, via, wg)
    }

    /// witness fn calling the method (and the fn directly) with its own parameters as arguments
    pub fn call_witness(&self, fn_name: &str, trait_name: &str, with_method: bool) -> String {
        let mut g: Vec<String> = vec![];
        let named_d = self.deps == Deps::ConcreteRefNamed || (self.deps == Deps::RefGeneric && self.deps_lifetime_bound);
        if named_d {
            g.push("'d".into());
        }
        if self.deps_has_ref() && !named_d || self.deps == Deps::NoDeps {
            g.push("'x".into());
        }
        for l in 0..self.n_lifetimes {
            if l == 1 && self.lt_pred {
                g.push("'b: 'a".into());
            } else {
                g.push(LT[l].to_string());
            }
        }
        let elided = |i: usize| format!("'e{i}");
        for (i, p) in self.params.iter().enumerate() {
            if is_elided_ref(p) {
                g.push(elided(i));
            }
        }
        let deps_lt = if named_d { "'d" } else { "'x" };
        let mut ps = vec![format!("recv: {}", if self.deps == Deps::NoDeps { "&'x A".to_string() } else { self.recv_ty(deps_lt) })];
        for (i, p) in self.params.iter().enumerate() {
            ps.push(format!("p{i}: {}", self.pty_inst(p, i, &elided)));
        }
        let args: Vec<String> = (0..self.params.len()).map(|i| format!("p{i}")).collect();
        let ret = self.rty_inst(deps_lt, &elided);
        let gs = if g.is_empty() { String::new() } else { format!("<{}>", g.join(", ")) };
        let direct_args = {
            let mut a = vec![];
            if self.deps != Deps::NoDeps {
                a.push("recv".to_string());
            }
            a.extend(args.iter().cloned());
            a.join(", ")
        };
        let (open, close) = if self.is_unsafe { ("unsafe { ", " }") } else { ("", "") };
        let call = if with_method && self.phantom {
            let mut a = vec!["recv".to_string()];
            a.extend(args.iter().cloned());
            format!("<{} as {trait_name}{}>::{fn_name}({})", self.self_ty(), self.trait_args(), a.join(", "))
        } else if with_method {
            format!("recv.{fn_name}({})", args.join(", "))
        } else {
            format!("{fn_name}{}({direct_args})", self.turbofish())
        };
        if self.is_async {
            let send = if with_method && !self.maybe_send_off { "    is_send(&fut);\n" } else { "" };
            format!("fn witness_call{gs}({}) {{\n    let fut = {open}{call}{close};\n    let _: PhantomData<{ret}> = out(&fut);\n{send}}}\n", ps.join(", "))
        } else {
            format!("fn witness_call{gs}({}) -> {ret} {{\n    {open}{call}{close}\n}}\n", ps.join(", "))
        }
    }
}

pub fn gen_sig(t: &mut Tape, excl: &Excl) -> Sig {
    let mut deps_pool = vec![Deps::RefGeneric, Deps::RefGeneric, Deps::RefImpl, Deps::RefImpl, Deps::ValGeneric, Deps::ValImpl, Deps::ConcreteRef, Deps::ConcreteRefNamed, Deps::NoDeps];
    if !excl.by_value_concrete {
        deps_pool.push(Deps::ConcreteVal);
    }
    let deps = *t.pick(&deps_pool);
    let is_async = t.chance(1, 3);
    let extern_c = !is_async && t.chance(1, 10);
    let is_unsafe = t.chance(1, 8);
    let maybe_send_off = is_async && t.chance(1, 4);
    let concrete = matches!(deps, Deps::ConcreteRef | Deps::ConcreteRefNamed | Deps::ConcreteVal);
    let nb = if concrete || deps == Deps::NoDeps { 0 } else { t.weighted(&[3, 3, 2, 1]) };
    let mut bounds: Vec<usize> = vec![];
    for _ in 0..nb {
        let b = t.choose(3);
        if !bounds.contains(&b) {
            bounds.push(b);
        }
    }
    let bounds_in_where = t.choose(bounds.len() + 1);
    let deps_maybe_sized = matches!(deps, Deps::RefGeneric | Deps::RefImpl) && !excl.relaxed_and_lifetime_deps_bounds && t.chance(1, 6);
    let deps_lifetime_bound = deps == Deps::RefGeneric && !excl.relaxed_and_lifetime_deps_bounds && t.chance(1, 6);
    let n_lifetimes = t.weighted(&[4, 3, 2]);
    let lt_pred = n_lifetimes >= 2 && !excl.lifetime_predicates && t.chance(1, 3);
    let n = t.weighted(&[2, 4, 4, 2, 1]);
    let mut params = vec![];
    let deps_has_ref = matches!(deps, Deps::RefGeneric | Deps::RefImpl | Deps::ConcreteRef | Deps::ConcreteRefNamed);
    let mut used_elided = false;
    for _ in 0..n {
        let p = match t.weighted(&[4, 2, 2, 3, 1, 2, 1, 1, 1, 1, 1, 1, 1, 1, 1]) {
            0 => PTy::I32,
            1 => PTy::Owned,
            2 => PTy::RefElided,
            3 if n_lifetimes > 0 => PTy::RefNamed(t.choose(n_lifetimes)),
            4 => PTy::MutVec,
            5 => PTy::Gen,
            6 if n_lifetimes > 0 => PTy::RefGenNamed(t.choose(n_lifetimes)),
            7 if !excl.const_generics => PTy::ArrConst,
            8 => PTy::ImplFn,
            9 => PTy::BoxDyn,
            10 if n_lifetimes > 0 => PTy::SliceNamed(t.choose(n_lifetimes)),
            11 => PTy::RefDynHrtb,
            12 if n_lifetimes > 0 => PTy::ImplLt(t.choose(n_lifetimes)),
            13 if n_lifetimes > 0 => PTy::RefNamedTwice(t.choose(n_lifetimes)),
            14 => PTy::PatTurbofish,
            _ => PTy::I32,
        };
        if p == PTy::RefElided {
            used_elided = true;
        }
        params.push(p);
    }
    let _ = used_elided;
    // the dependency's own type parameter mentioned again (by value: no further lifetimes; sync or `?Send` only, a Send future
    // would need `D: Send`, which is the user's business)
    let deps_again = matches!(deps, Deps::RefGeneric | Deps::ValGeneric) && !deps_maybe_sized && !excl.deps_type_param_used_elsewhere && (!is_async || maybe_send_off) && t.chance(1, 4);
    if deps_again && t.chance(2, 3) {
        let p = if t.flip() { PTy::DepsOpt } else { PTy::DepsVec };
        let at = t.choose(params.len() + 1);
        params.insert(at, p);
    }
    // ... or, with a dependency that need not be `Sized`, in a position that does not need it to be
    if deps == Deps::RefGeneric && deps_maybe_sized && !excl.deps_type_param_used_elsewhere && (!is_async || maybe_send_off) && t.flip() {
        let at = t.choose(params.len() + 1);
        params.insert(at, PTy::DepsPhantom);
    }
    let has_gen = params.iter().any(|p| matches!(p, PTy::Gen | PTy::RefGenNamed(_)));
    let n_elided = params.iter().filter(|p| is_elided_ref(p)).count();
    // return type: only relations that are valid in the ORIGINAL fn
    let mut rets = vec![RTy::Unit, RTy::I32, RTy::Owned];
    let named_ref_args: Vec<usize> = params.iter().filter_map(|p| if let PTy::RefNamed(l) | PTy::RefNamedTwice(l) = p { Some(*l) } else { None }).collect();
    for l in &named_ref_args {
        rets.push(RTy::FromArg(*l));
        rets.push(RTy::OptFromArg(*l));
    }
    // elided output lifetime: valid iff exactly one reference-typed input overall (elided or named lifetimes all count as "input lifetimes")
    let n_lt_inputs = n_elided
        + params.iter().filter(|p| matches!(p, PTy::RefNamed(_) | PTy::RefNamedTwice(_) | PTy::RefGenNamed(_) | PTy::SliceNamed(_) | PTy::MutVec)).count()
        + if deps_has_ref { 1 } else { 0 };
    if deps_has_ref && (n_lt_inputs == 1 || deps == Deps::ConcreteRefNamed || deps_lifetime_bound) {
        rets.push(RTy::FromDeps);
        rets.push(RTy::FromDeps);
    }
    if !deps_has_ref && n_elided == 1 && n_lt_inputs == 1 && !excl.no_deps_elided_return {
        rets.push(RTy::FromElidedArg);
        rets.push(RTy::FromElidedArg);
        rets.push(RTy::ResFromElidedArgOrStatic);
    }
    // ... or the single input lifetime is written out and only the output elides it
    if !deps_has_ref && n_elided == 0 && n_lt_inputs == 1 && named_ref_args.len() == 1 && !excl.no_deps_elided_return {
        rets.push(RTy::FromNamedArgElided(named_ref_args[0]));
        rets.push(RTy::FromNamedArgElided(named_ref_args[0]));
    }
    let mut has_gen = has_gen;
    if has_gen || t.chance(1, 8) {
        rets.push(RTy::Gen);
    }
    if deps_again {
        rets.push(RTy::DepsOpt);
        if !params.iter().any(|p| matches!(p, PTy::DepsOpt | PTy::DepsVec)) {
            rets = vec![RTy::DepsOpt];
        }
    }
    let ret = rets[t.choose(rets.len())].clone();
    if ret == RTy::Gen {
        has_gen = true;
    }
    let has_const = params.iter().any(|p| *p == PTy::ArrConst);
    let mut sig = Sig {
        concrete_ty: *t.pick(&["Conf", "Conf", "inner::PConf", "GConf<i32>", "self::inner::PConf", "<Sel as HasConf>::C", "::std::string::String"]),
        deps,
        bounds,
        bounds_in_where,
        deps_maybe_sized,
        deps_relaxed_in_where: t.flip(),
        deps_lifetime_bound,
        n_lifetimes,
        lt_pred,
        has_gen,
        gen_bound_where: t.flip(),
        explicit_outlives: !excl.lifetime_predicates && t.flip(),
        extra_where: if t.chance(1, 6) { Some(t.choose(5)) } else { None },
        deps_param_pos: if t.chance(1, 3) { t.choose(3) } else { 0 },
        grouped_lt_pred: if n_lifetimes >= 1 && !excl.lifetime_predicates && t.chance(1, 5) { Some(t.choose(7)) } else { None },
        has_const,
        params,
        ret,
        is_async,
        is_unsafe,
        extern_c,
        extern_bare: t.chance(1, 3),
        maybe_send_off,
        vis: *t.pick(&["", "pub", "pub(crate)"]),
        outlives_inline: t.flip(),
        gen_mentions_deps: t.chance(1, 4),
        phantom: t.chance(1, 6),
        phantom_proj: t.chance(1, 3),
        gen_maybe_sized: t.chance(1, 2),
    };
    if sig.phantom && sig.phantom_proj {
        sig.params.push(PTy::Proj);
    }
    sig
}

/// classes excluded by construction because they are listed as open known findings
#[derive(Clone, Copy, Default, Debug)]
pub struct Excl {
    pub const_generics: bool,
    pub lifetime_predicates: bool,
    pub by_value_concrete: bool,
    pub no_deps_elided_return: bool,
    pub relaxed_and_lifetime_deps_bounds: bool,
    pub deps_type_param_used_elsewhere: bool,
}

pub struct Case {
    pub real: String,
    pub twin: String,
    pub summary: String,
    pub nontrivial: bool,
    pub classes: Vec<&'static str>,
}

fn header() -> String {
    let mut s = String::from(
        "#![allow(warnings)]\n#![deny(unsafe_op_in_unsafe_fn)]\nuse ::core::marker::PhantomData;\nuse ::core::future::Future;\n\
         pub struct Sel;\npub trait HasConf { type C; }\nimpl HasConf for Sel { type C = Conf; }\npub trait Rel<X> {}\nimpl<X> Rel<X> for i64 {}\npub trait Proj { type Out: Send + Sync + Default; }\nimpl Proj for u16 { type Out = u8; }\npub struct Holder<'h>(pub &'h str);\npub struct W<T>(pub T);\n\
         pub struct App;\npub struct Conf { pub s: String }\npub mod inner { pub struct PConf { pub s: String } }\npub struct GConf<T> { pub s: String, pub t: T }\npub type A = ::entrait::Impl<App>;\n\
         fn out<F: Future>(_: &F) -> PhantomData<F::Output> { PhantomData }\nfn is_send<T: Send>(_: &T) {}\n\
         pub trait LtLabel<'l> {}\nimpl<'l> LtLabel<'l> for (u8, i8) {}\nimpl<'l> LtLabel<'l> for [u8; 2] {}\nimpl<'l> LtLabel<'l> for fn(u8) -> u8 {}\n",
    );
    for b in 0..3 {
        s.push_str(&format!("pub trait B{b} {{}}\nimpl B{b} for A {{}}\n"));
    }
    s
}

pub fn gen_case(t: &mut Tape, excl: &Excl) -> Case {
    let sig = gen_sig(t, excl);
    let mut opts: Vec<String> = vec![];
    if sig.deps == Deps::NoDeps {
        opts.push("no_deps".into());
    }
    if sig.maybe_send_off {
        opts.push("?Send".into());
    }
    for _ in 0..t.weighted(&[4, 2, 1]) {
        let o = *t.pick(&["export = false", "mock_api = TheMock", "unimock = false", "mockall = false", "no_deps = false"]);
        if !opts.iter().any(|x| x.split(' ').next() == o.split(' ').next()) && !(o.starts_with("no_deps") && sig.deps == Deps::NoDeps) {
            opts.push(o.to_string());
        }
    }
    let perm = t.permutation(opts.len());
    let opts: Vec<String> = perm.into_iter().map(|i| opts[i].clone()).collect();
    let tvis = *t.pick(&["", "pub ", "pub(crate) "]);
    let attr = format!("{tvis}TheTrait{}", opts.iter().map(|o| format!(", {o}")).collect::<String>());
    let fn_src = sig.fn_src("the_fn");
    let (p_direct, p_via, wg) = sig.ptr_types();
    let targs = sig.trait_args();
    let tf = sig.turbofish();
    let self_ty = sig.self_ty();
    let mut real = header();
    // the fn may come out of a `macro_rules!` expansion that is handed the trait's name (`$t:ident`) and the dependency's
    // type (`$d:ty`, which reaches the attribute macro inside a group with invisible delimiters) from the call site
    let from_macro = matches!(sig.deps, Deps::RefImpl | Deps::ValImpl | Deps::ConcreteRef | Deps::ConcreteVal) && t.chance(1, 6);
    if from_macro {
        let dparam = sig.deps_param().unwrap_or_default();
        let dty = dparam.trim_start_matches("deps: ").to_string();
        let attr_m = attr.replacen("TheTrait", "$t", 1);
        real.push_str(&format!(
            "macro_rules! __mk_the_fn {{ ($t:ident, $d:ty) => {{\n#[::entrait::entrait({attr_m})]\n{}\n}} }}\n__mk_the_fn!(TheTrait, {dty});\n\n",
            fn_src.replacen(&dparam, "deps: $d", 1)
        ));
    } else {
        real.push_str(&format!("#[::entrait::entrait({attr})]\n{fn_src}\n\n"));
    }
    if !sig.is_async {
        // (an async fn's return type cannot be named in a fn-pointer type: the call witness carries the Output ascription instead)
        real.push_str(&format!(
            "fn witness_ptr{wg}() {{\n    let _direct: {p_direct} = the_fn{tf};\n    let _via: {p_via} = <{self_ty} as TheTrait{targs}>::the_fn;\n}}\n"
        ));
    }
    if sig.deps_maybe_sized {
        // a dependency that need not be `Sized`: the method is there for implementors that are not (the call witness again,
        // with an abstract `X: ?Sized + TheTrait` in the place of the application)
        let w = sig.call_witness("the_fn", "TheTrait", true).replace("    is_send(&fut);\n", "");
        let bound = format!("X: ?Sized + TheTrait{targs}");
        let w = if w.starts_with("fn witness_call<") {
            w.replacen("fn witness_call<", "fn witness_unsized<", 1).replacen('>', &format!(", {bound}>"), 1)
        } else {
            w.replacen("fn witness_call(", &format!("fn witness_unsized<{bound}>("), 1)
        };
        let mut out = String::new();
        let bytes = w.as_bytes();
        for (k, c) in w.char_indices() {
            let word = |b: u8| b.is_ascii_alphanumeric() || b == b'_';
            if c == 'A' && (k == 0 || !word(bytes[k - 1])) && (k + 1 >= bytes.len() || !word(bytes[k + 1])) {
                out.push('X');
            } else {
                out.push(c);
            }
        }
        real.push_str(&out);
    }
    real.push_str(&sig.call_witness("the_fn", "TheTrait", true));
    real.push_str("pub fn run() -> Vec<String> { vec![] }\n");
    let mut twin = header();
    twin.push_str(&format!("{fn_src}\n\n"));
    if !sig.is_async {
        twin.push_str(&format!("fn witness_ptr{wg}() {{\n    let _direct: {p_direct} = the_fn{tf};\n}}\n"));
    }
    twin.push_str(&sig.call_witness("the_fn", "TheTrait", false));
    twin.push_str("pub fn run() -> Vec<String> { vec![] }\n");
    let mut classes = vec![];
    let mut score = 0;
    if sig.has_gen {
        classes.push("extra_generic");
        score += 1;
    }
    if sig.n_lifetimes > 0 || sig.deps == Deps::ConcreteRefNamed {
        classes.push("explicit_lifetime");
        score += 1;
    }
    if sig.has_const {
        classes.push("const_generic");
        score += 1;
    }
    if sig.is_async {
        classes.push("async");
        score += 1;
    }
    if matches!(sig.ret, RTy::FromNamedArgElided(_)) {
        classes.push("elided_output_of_the_single_named_input_lifetime");
    }
    if matches!(sig.ret, RTy::FromDeps | RTy::FromArg(_) | RTy::FromElidedArg | RTy::OptFromArg(_) | RTy::FromNamedArgElided(_) | RTy::ResFromElidedArgOrStatic) {
        classes.push("borrowed_return");
        score += 1;
    }
    if sig.has_gen && sig.gen_maybe_sized && !sig.params.contains(&PTy::Gen) && sig.ret != RTy::Gen {
        classes.push(if sig.gen_bound_where && !(sig.explicit_outlives && sig.outlives_inline) { "relaxed_bound_in_the_where_clause" } else { "relaxed_bound_inline" });
    }
    if sig.ret == RTy::ResFromElidedArgOrStatic {
        classes.push("elided_and_written_lifetimes_in_the_output");
    }
    if sig.is_unsafe || sig.extern_c {
        classes.push("qualifier");
        score += 1;
    }
    if sig.lt_pred {
        classes.push("lifetime_predicate");
    }
    if sig.params.contains(&PTy::DepsPhantom) {
        classes.push("deps_type_parameter_that_need_not_be_sized_mentioned_again");
    }
    if sig.params.iter().any(|p| matches!(p, PTy::DepsOpt | PTy::DepsVec)) || sig.ret == RTy::DepsOpt {
        classes.push("deps_type_parameter_used_elsewhere");
    }
    if sig.deps_param_pos > 0 && matches!(sig.deps, Deps::RefGeneric | Deps::ValGeneric) && (sig.has_gen || sig.has_const) {
        classes.push("deps_type_parameter_not_declared_first");
    }
    if from_macro {
        classes.push("fn_from_macro_rules_with_ty_and_ident_fragments");
    }
    if sig.extra_where.is_some() {
        classes.push("where_predicate_on_non_parameter_type");
    }
    if sig.grouped_lt_pred.is_some() {
        classes.push("lifetime_inside_group_in_where_predicate");
    }
    if sig.deps_maybe_sized {
        classes.push("deps_bound_?Sized");
        if sig.deps == Deps::RefGeneric && sig.deps_relaxed_in_where {
            classes.push("deps_bound_?Sized_in_the_where_clause");
        }
    }
    if sig.phantom && sig.phantom_proj {
        classes.push("type_parameter_mentioned_only_through_an_associated_type");
    } else if sig.phantom {
        classes.push("type_and_const_parameters_not_inferable_from_the_call");
    }
    if sig.has_gen && sig.gen_mentions_deps && !sig.deps_maybe_sized && matches!(sig.deps, Deps::RefGeneric | Deps::ValGeneric) {
        classes.push("extra_type_parameter_bound_mentions_the_dependency_parameter");
    }
    if sig.concrete() && (sig.concrete_ty.starts_with('<') || sig.concrete_ty.starts_with("::")) {
        classes.push("concrete_deps_qualified_or_absolute_path");
    }
    if sig.has_gen && sig.explicit_outlives && sig.outlives_inline && sig.params.iter().any(|p| matches!(p, PTy::RefGenNamed(_))) {
        classes.push("inline_outlives_bound_on_extra_type_parameter");
    }
    if sig.deps_lifetime_bound {
        classes.push("deps_lifetime_bound");
    }
    if sig.params.iter().any(|p| matches!(p, PTy::ImplLt(_))) {
        classes.push("impl_trait_argument_carrying_a_lifetime");
    }
    if sig.params.iter().any(|p| matches!(p, PTy::RefNamedTwice(_))) {
        classes.push("parameter_mentioning_one_named_lifetime_twice");
    }
    if sig.params.contains(&PTy::PatTurbofish) {
        classes.push("reference_type_inside_a_parameter_pattern");
    }
    if matches!(sig.deps, Deps::NoDeps) && matches!(sig.ret, RTy::FromElidedArg | RTy::FromNamedArgElided(_)) && sig.params.iter().any(|p| matches!(p, PTy::ImplLt(_) | PTy::RefNamedTwice(_) | PTy::PatTurbofish)) {
        classes.push("no_deps_elided_output_next_to_lifetimes_that_do_not_count");
    }
    if sig.params.contains(&PTy::RefDynHrtb) {
        classes.push("parameter_type_with_a_higher_ranked_lifetime");
        if sig.ret == RTy::FromElidedArg {
            classes.push("elided_output_of_the_single_elided_input_next_to_a_higher_ranked_lifetime");
        }
    }
    match sig.deps {
        Deps::ValGeneric | Deps::ValImpl | Deps::ConcreteVal => classes.push("by_value_deps"),
        Deps::NoDeps => classes.push("no_deps"),
        _ => {}
    }
    if sig.concrete() {
        classes.push("concrete_deps");
    }
    Case { real, twin, summary: format!("#[entrait({attr})] {fn_src}"), nontrivial: score >= 2, classes }
}

/// Module leg: the fns of one entraited module name their type / const parameters alike (`T`, `U`, `N`), with equal or
/// different bounds, in any declaration order; some use a parameter in no argument. The trait has one parameter per name.
pub fn gen_mod_case(t: &mut Tape) -> Case {
    // (the last two: one trait with different generic arguments - different bounds, however alike their paths)
    const TB: [&str; 5] = ["Clone", "Default", "PartialEq", "From<u8>", "From<u16>"];
    const UB: [&str; 2] = ["Clone", "Default"];
    let nf = t.range(2, 4);
    let mut order: Vec<&str> = vec![]; // first-appearance order of the names = parameter order of the trait
    let mut fns_src = String::new();
    let mut w_real = String::new();
    let mut w_twin = String::new();
    let mut shared = 0;
    let mut any_phantom = false;
    let mut summary = vec![];
    for i in 0..nf {
        let mut decl: Vec<(&str, String)> = vec![]; // (name, declaration)
        let mut used: Vec<&str> = vec![];
        if t.chance(2, 3) {
            let bounds: Vec<&str> = TB.iter().copied().filter(|_| t.flip()).collect();
            decl.push(("T", if bounds.is_empty() { "T".into() } else { format!("T: {}", bounds.join(" + ")) }));
        }
        if t.chance(1, 3) {
            let bounds: Vec<&str> = UB.iter().copied().filter(|_| t.flip()).collect();
            decl.push(("U", if bounds.is_empty() { "U".into() } else { format!("U: {}", bounds.join(" + ")) }));
        }
        if t.chance(1, 2) {
            decl.push(("N", "const N: usize".into()));
        }
        let perm = t.permutation(decl.len());
        let mut decl: Vec<(&str, String)> = perm.into_iter().map(|k| decl[k].clone()).collect();
        let named_deps = t.flip();
        if named_deps {
            let at = t.choose(decl.len() + 1);
            decl.insert(at, ("D", "D".into()));
        }
        let mut ps = vec![if named_deps { "deps: &D".to_string() } else { "deps: &impl Sized".to_string() }];
        let mut args = vec!["a".to_string()];
        for (name, _) in &decl {
            if *name == "D" {
                continue;
            }
            if !order.contains(name) {
                order.push(name);
            } else {
                shared += 1;
            }
            // a parameter may appear in no argument
            if t.chance(1, 5) {
                any_phantom = true;
                continue;
            }
            used.push(name);
            match *name {
                "T" => {
                    ps.push("x: T".into());
                    args.push("5i64".into());
                }
                "U" => {
                    ps.push("u: U".into());
                    args.push("String::new()".into());
                }
                _ => {
                    ps.push("arr: [u8; N]".into());
                    args.push("[0u8; 3]".into());
                }
            }
        }
        let g = if decl.is_empty() { String::new() } else { format!("<{}>", decl.iter().map(|d| d.1.clone()).collect::<Vec<_>>().join(", ")) };
        let f = format!("pub fn f{i}{g}({}) {{ todo!() }}", ps.join(", "));
        summary.push(f.clone());
        fns_src.push_str(&format!("    {f}\n"));
        w_real.push_str(&format!("    <A as TheTrait@ARGS@>::f{i}({});\n", args.join(", ")));
        let phantom_here = decl.iter().any(|d| d.0 != "D" && !used.contains(&d.0));
        let tf = if phantom_here {
            format!("::<{}>", decl.iter().map(|d| match d.0 { "D" => "_", "T" => "i64", "U" => "String", _ => "3" }).collect::<Vec<_>>().join(", "))
        } else {
            String::new()
        };
        w_twin.push_str(&format!("    m::f{i}{tf}({});\n", args.join(", ")));
    }
    let targs = if order.is_empty() { String::new() } else { format!("<{}>", order.iter().map(|n| match *n { "T" => "i64", "U" => "String", _ => "3" }).collect::<Vec<_>>().join(", ")) };
    let w_real = w_real.replace("@ARGS@", &targs);
    let head = "#![allow(warnings)]\npub struct App;\npub type A = ::entrait::Impl<App>;\n";
    let real = format!("{head}#[::entrait::entrait(pub TheTrait)]\npub mod m {{\n{fns_src}}}\nfn witness(a: &A) {{\n{w_real}}}\npub fn run() -> Vec<String> {{ vec![] }}\n");
    let twin = format!("{head}pub mod m {{\n{fns_src}}}\nfn witness(a: &A) {{\n{w_twin}}}\npub fn run() -> Vec<String> {{ vec![] }}\n");
    let mut classes = vec!["module_leg"];
    if shared > 0 {
        classes.push("module_fns_sharing_a_generic_parameter_name");
    }
    if any_phantom {
        classes.push("type_and_const_parameters_not_inferable_from_the_call");
    }
    Case { real, twin, summary: format!("#[entrait(pub TheTrait)] mod m {{ {} }}", summary.join(" ")), nontrivial: shared > 0, classes }
}

fn first_error(diags: &[Diag]) -> String {
    diags.first().map(|d| format!("{} {}", d.code, d.message)).unwrap_or_default()
}

pub const TAPE_LEN: usize = 96;

/// returns (verdicts by index: None = discarded generator-invalid, Some(Ok) = compiles, Some(Err(diag)) = does not)
pub fn compile_cases(name: &str, feature_unimock: bool, cases: &[Case]) -> (Vec<Option<Result<(), Vec<Diag>>>>, Vec<crate::tok::Record>) {
    let mut batch = Batch::new(name, Opts { feature_unimock, members: 16, check_only: true, ..Default::default() });
    for (i, c) in cases.iter().enumerate() {
        batch.add(&format!("c{i:05}"), c.real.clone());
        batch.add(&format!("t{i:05}"), c.twin.clone());
    }
    let out = batch.build_and_run();
    batch.cleanup();
    let mut res = vec![];
    for i in 0..cases.len() {
        if out.compile_failed.contains_key(&format!("t{i:05}")) {
            res.push(None);
        } else if let Some(d) = out.compile_failed.get(&format!("c{i:05}")) {
            res.push(Some(Err(d.clone())));
        } else {
            res.push(Some(Ok(())));
        }
    }
    (res, out.records)
}

pub fn run(ctx: &mut Ctx) {
    ctx.rule = "cases = entraited fns over the supported signature class, decoded from proptest choice tapes: deps form (named generic / impl Trait / concrete, by reference or by value, no_deps) x \
                0..4 further parameters (owned, elided and named references, &mut, generic, &'l T, [u8; N], impl Fn, Box<dyn Fn>) x generics (type / lifetime / const, inline and where bounds, \
                lifetime predicates) x sync/async x unsafe/extern \"C\" x return type (unit, owned, generic, borrowed from deps / a named-lifetime argument / the elided argument) x option set x both \
                cargo feature settings; each program carries fn-pointer coercion witnesses for the fn item and for the trait method against one pointer type derived from the generator's model, and a \
                call witness (exact Future::Output + is_send for async); non-trivial = >=2 of {extra generic, explicit lifetime, const generic, async, borrowed return, qualifier}; distinct = distinct program text"
        .into();
    ctx.assumptions.push("a plain twin (same fn, no attribute, direct-call witnesses only) must compile, else the case is discarded as a generator fault (run inconclusive above 1%)".into());
    let open = crate::ev::open_findings("C03");
    let excl = Excl {
        const_generics: open.iter().any(|f| f.key == "const-generic-duplicated"),
        lifetime_predicates: open.iter().any(|f| f.key == "lifetime-predicates-lifted"),
        by_value_concrete: open.iter().any(|f| f.key == "by-value-concrete-deps"),
        no_deps_elided_return: open.iter().any(|f| f.key == "no-deps-elided-return"),
        relaxed_and_lifetime_deps_bounds: open.iter().any(|f| f.key == "relaxed-or-lifetime-deps-bound"),
        deps_type_param_used_elsewhere: open.iter().any(|f| f.key == "deps-type-param-used-elsewhere"),
    };
    for f in &open {
        if !["const-generic-duplicated", "lifetime-predicates-lifted", "by-value-concrete-deps", "no-deps-elided-return", "relaxed-or-lifetime-deps-bound", "deps-type-param-used-elsewhere"].contains(&f.key.as_str()) {
            crate::ev::inconclusive(&format!("known_findings.txt lists an open C03 finding with an unknown key: {}", f.key));
        }
    }
    ctx.extra.insert("excluded_by_construction".into(), json!(format!("{excl:?}")));
    probe_known(ctx, &open);
    let n = ctx.n(3000, 40_000) as usize;
    let mut discarded = 0usize;
    let mut total = 0usize;
    for feature_unimock in [false, true] {
        let chunk = 4000usize;
        let tapes = crate::drive::gen_tapes(ctx.seed, 300 + feature_unimock as u64, n, TAPE_LEN);
        for (ci, tchunk) in tapes.chunks(chunk).enumerate() {
            let cases: Vec<Case> = tchunk.iter().map(|tp| gen_case(&mut Tape::new(tp), &excl)).collect();
            let (verdicts, records) = compile_cases(&format!("c03-{}-{ci}", if feature_unimock { "unimock" } else { "plain" }), feature_unimock, &cases);
            super::common::crosscheck_records(ctx, &records);
            for (i, v) in verdicts.iter().enumerate() {
                total += 1;
                match v {
                    None => {
                        discarded += 1;
                        ctx.class("generator_invalid_twin_failed");
                        if ctx.extra.get("first_generator_invalid").is_none() {
                            ctx.extra.insert("first_generator_invalid".into(), json!(cases[i].summary));
                        }
                    }
                    Some(Ok(())) => {
                        ctx.count_eval();
                        for c in &cases[i].classes {
                            ctx.class(c);
                        }
                        if cases[i].nontrivial {
                            ctx.nontrivial(&cases[i].real);
                            ctx.sample(|| json!({"program": cases[i].summary, "config": if feature_unimock { "unimock" } else { "plain" }}));
                        }
                    }
                    Some(Err(diags)) => {
                        ctx.count_eval();
                        let (src, msg) = shrink(&tchunk[i], feature_unimock, &excl, &cases[i], diags);
                        ctx.violation(
                            &format!("a signature in the supported class does not compile after expansion (or its call type differs): {msg}"),
                            &json!({"engine": "E2", "feature_unimock": feature_unimock, "real": src.0, "twin": src.1, "summary": src.2}),
                        );
                        return;
                    }
                }
            }
        }
    }
    // module leg
    {
        let n = ctx.n(400, 4000) as usize;
        let tapes = crate::drive::gen_tapes(ctx.seed, 302, n, 64);
        let cases: Vec<Case> = tapes.iter().map(|tp| gen_mod_case(&mut Tape::new(tp))).collect();
        let (verdicts, records) = compile_cases("c03-mod", false, &cases);
        super::common::crosscheck_records(ctx, &records);
        for (i, v) in verdicts.iter().enumerate() {
            total += 1;
            match v {
                None => {
                    discarded += 1;
                    ctx.class("generator_invalid_twin_failed");
                    if ctx.extra.get("first_generator_invalid").is_none() {
                        ctx.extra.insert("first_generator_invalid".into(), json!(cases[i].summary));
                    }
                }
                Some(Ok(())) => {
                    ctx.count_eval();
                    for c in &cases[i].classes {
                        ctx.class(c);
                    }
                    if cases[i].nontrivial {
                        ctx.nontrivial(&cases[i].real);
                        ctx.sample(|| json!({"program": cases[i].summary, "config": "plain"}));
                    }
                }
                Some(Err(diags)) => {
                    ctx.count_eval();
                    ctx.violation(
                        &format!("the fns of a module in the supported class do not compile after expansion: {} -- in {}", first_error(diags), cases[i].summary),
                        &json!({"engine": "E2", "feature_unimock": false, "real": cases[i].real, "twin": cases[i].twin, "summary": cases[i].summary}),
                    );
                    return;
                }
            }
        }
    }
    ctx.extra.insert("generator_invalid".into(), json!(discarded));
    if discarded * 100 > total {
        ctx.write_evidence().ok();
        crate::ev::inconclusive(&format!("{discarded} of {total} generated programs have a twin that does not compile (>1%): generator fault; first: {:?}", ctx.extra.get("first_generator_invalid")));
    }
}

fn shrink(tape: &[u32], feature_unimock: bool, excl: &Excl, case: &Case, diags: &[Diag]) -> ((String, String, String), String) {
    let mut best_tape = tape.to_vec();
    let mut best = ((case.real.clone(), case.twin.clone(), case.summary.clone()), first_error(diags));
    let mut budget = 24;
    let mut block = tape.len() / 2;
    while block >= 1 && budget > 0 {
        let mut i = 0;
        while i < best_tape.len() && budget > 0 {
            let end = (i + block).min(best_tape.len());
            if best_tape[i..end].iter().all(|v| *v == 0) {
                i += block;
                continue;
            }
            let mut cand = best_tape.clone();
            for v in cand[i..end].iter_mut() {
                *v = 0;
            }
            let c = gen_case(&mut Tape::new(&cand), excl);
            budget -= 1;
            let (v, _) = compile_cases("c03-shrink", feature_unimock, std::slice::from_ref(&c));
            if let Some(Some(Err(d))) = v.first() {
                best = ((c.real.clone(), c.twin.clone(), c.summary.clone()), first_error(d));
                best_tape = cand;
            }
            i += block;
        }
        block /= 2;
    }
    best
}

fn single_case(real: &str, twin: &str) -> Case {
    Case { real: real.to_string(), twin: twin.to_string(), summary: String::new(), nontrivial: false, classes: vec![] }
}

/// stored reproducers of open findings: still failing with the stored error class => KNOWN-FINDING
fn probe_known(ctx: &mut Ctx, open: &[crate::ev::Finding]) {
    for f in open {
        let (item, attr, code): (&str, &str, &str) = match f.key.as_str() {
            "const-generic-duplicated" => ("fn the_fn<D, const N: usize>(deps: &D, a: [u8; N]) { todo!() }", "TheTrait", "E0403"),
            "lifetime-predicates-lifted" => ("fn the_fn<'a, 'b>(deps: &impl Sized, a: &'a str, b: &'b str) -> &'a str where 'b: 'a { todo!() }", "TheTrait", "E0261"),
            "by-value-concrete-deps" => ("fn the_fn(deps: Conf) -> i32 { todo!() }", "TheTrait", "E0507"),
            "no-deps-elided-return" => ("fn the_fn(p0: &str) -> &str { todo!() }", "TheTrait, no_deps", "E0621"),
            "deps-type-param-used-elsewhere" => ("fn the_fn<D: B0>(deps: &D, again: &D) { todo!() }", "TheTrait", "E0425"),
            "relaxed-or-lifetime-deps-bound" => ("fn the_fn<D: ?Sized + B0>(deps: &D) { todo!() }", "TheTrait", ""),
            _ => continue,
        };
        let real = format!("{}#[::entrait::entrait({attr})]\n{item}\npub fn run() -> Vec<String> {{ vec![] }}\n", header());
        let twin = format!("{}{item}\npub fn run() -> Vec<String> {{ vec![] }}\n", header());
        let (v, _) = compile_cases("c03-probe", false, &[single_case(&real, &twin)]);
        ctx.count_eval();
        match v.first() {
            Some(Some(Err(d))) => {
                if d.iter().any(|x| x.code == code) || f.key == "no-deps-elided-return" || code.is_empty() {
                    ctx.known(&format!("key={} {}", f.key, f.what));
                } else {
                    ctx.violation(
                        &format!("known finding `{}` now fails differently: {}", f.key, first_error(d)),
                        &json!({"engine": "E2", "feature_unimock": false, "real": real, "twin": twin}),
                    );
                }
            }
            Some(None) => crate::ev::inconclusive(&format!("probe twin for {} does not compile", f.key)),
            _ => {}
        }
    }
}

pub fn replay(ctx: &mut Ctx, v: &Value) {
    let feature_unimock = v.get("feature_unimock").and_then(|b| b.as_bool()).unwrap_or(false);
    let c = single_case(&super::s(v, "real"), &super::s(v, "twin"));
    ctx.count_eval();
    let (res, _) = compile_cases("c03-replay", feature_unimock, &[c]);
    match res.first() {
        Some(Some(Err(d))) => ctx.violation(&format!("does not compile after expansion: {}", first_error(d)), v),
        Some(None) => crate::ev::inconclusive("replayed twin does not compile"),
        _ => {}
    }
    let _ = BTreeMap::<String, String>::new();
}
