//! C02 — append-only: the annotated fn / mod / impl items are emitted unchanged.
//!
//! Oracle (exact, token level, spans/spacing ignored), for *accepted* inputs only:
//!   fn   : output[..len(input)] == input
//!   mod  : output[..k-1] == input[..k-1] and the k-th token is a brace group whose content has the input
//!          content as a prefix (generated items only at the end / after the module)
//!   impl : output contains, at top level, `[attrs - async_trait] [unsafe] impl <SelfTy> { <input items> }`

use crate::drive::{run_tapes_par, Fail};
use crate::e1::{self, Outcome};
use crate::ev::Ctx;
use crate::gen::{self, FnGenCfg, ModItemKind};
use crate::tape::Tape;
use crate::tok::{self, Tok};
use serde_json::{json, Value};

pub struct Case {
    pub mode: &'static str,
    pub macro_name: String,
    pub attr: String,
    pub item: String,
    pub nontrivial: bool,
}

impl Case {
    pub fn json(&self) -> Value {
        json!({"engine": "E1", "mode": self.mode, "macro": self.macro_name, "attr": self.attr, "item": self.item})
    }
}

pub fn check(mode: &str, macro_name: &str, attr: &str, item: &str) -> Result<&'static str, String> {
    let input = tok::toks_of_src(item).map_err(|e| format!("HARNESS: {e}"))?;
    let out = match e1::outcome(macro_name, attr, item).map_err(|e| format!("HARNESS: {e}"))? {
        Outcome::Accepted(t, _) => t,
        Outcome::Rejected(_) => return Ok("rejected"),
        Outcome::Panic(_) => return Ok("panic"), // C15's business
    };
    check_tokens(mode, &input, &out).map(|_| "accepted")
}

/// The comparator proper; also applied to recorder triples from real rustc expansions.
pub fn check_tokens(mode: &str, input: &[Tok], out: &[Tok]) -> Result<(), String> {
    match mode {
        "fn" => {
            if out.len() < input.len() || out[..input.len()] != input[..] {
                let at = first_diff(input, out);
                return Err(format!(
                    "fn item not emitted unchanged as the prefix of the expansion (first difference at top-level token {at}): input `{}` vs output `{}`",
                    tok::render(&input[at.min(input.len())..(at + 6).min(input.len())]),
                    tok::render(&out[at.min(out.len())..(at + 6).min(out.len())])
                ));
            }
            Ok(())
        }
        "mod" => {
            let k = input.len();
            let content = match input.last() {
                Some(Tok::Group('{', c)) => c,
                _ => return Err("HARNESS: module input does not end in a brace group".into()),
            };
            if out.len() < k || out[..k - 1] != input[..k - 1] {
                return Err(format!("module header (attributes, visibility, `mod`, name) altered: `{}`", tok::render(&out[..k.min(out.len())].iter().filter(|t| !matches!(t, Tok::Group('{', _))).cloned().collect::<Vec<_>>())));
            }
            match &out[k - 1] {
                Tok::Group('{', c2) => {
                    if c2.len() < content.len() || c2[..content.len()] != content[..] {
                        let at = first_diff(content, c2);
                        return Err(format!(
                            "module items not emitted unchanged/in order (first difference at module token {at}): input `{}` vs output `{}`",
                            tok::render(&content[at.min(content.len())..(at + 8).min(content.len())]),
                            tok::render(&c2[at.min(c2.len())..(at + 8).min(c2.len())])
                        ));
                    }
                    Ok(())
                }
                _ => Err("module body is not a brace group in the expansion".into()),
            }
        }
        "impl" => {
            // split input: attrs* [unsafe] impl <path> for <ty...> {content}
            let mut i = 0;
            let mut attrs: Vec<(usize, usize)> = vec![];
            while i + 1 < input.len() && input[i] == Tok::Punct('#') {
                attrs.push((i, i + 2));
                i += 2;
            }
            let mut prefix: Vec<Tok> = vec![];
            for (a, b) in &attrs {
                let is_async_trait = match &input[a + 1] {
                    Tok::Group('[', inner) => last_path_ident(inner).as_deref() == Some("async_trait"),
                    _ => false,
                };
                if !is_async_trait {
                    prefix.extend_from_slice(&input[*a..*b]);
                }
            }
            if input.get(i) == Some(&Tok::Ident("unsafe".into())) {
                prefix.push(input[i].clone());
                i += 1;
            }
            if input.get(i) != Some(&Tok::Ident("impl".into())) {
                return Err("HARNESS: impl input shape".into());
            }
            let for_pos = input.iter().position(|t| *t == Tok::Ident("for".into())).ok_or("HARNESS: no `for`")?;
            let ty = &input[for_pos + 1..input.len() - 1];
            let content = match input.last() {
                Some(Tok::Group('{', c)) => c,
                _ => return Err("HARNESS: impl input does not end in a brace group".into()),
            };
            let mut expected = prefix.clone();
            expected.push(Tok::Ident("impl".into()));
            expected.extend_from_slice(ty);
            expected.push(Tok::Group('{', content.clone()));
            let found = (0..out.len()).any(|s| out.len() - s >= expected.len() && out[s..s + expected.len()] == expected[..]);
            if !found {
                return Err(format!(
                    "expansion does not contain the impl block's attributes/items unchanged as an inherent impl: expected `{}`",
                    tok::render(&expected)
                ));
            }
            Ok(())
        }
        other => Err(format!("HARNESS: unknown mode {other}")),
    }
}

fn last_path_ident(attr_inner: &[Tok]) -> Option<String> {
    // path tokens up to the first group / `=`
    let mut last = None;
    for t in attr_inner {
        match t {
            Tok::Ident(x) => last = Some(x.clone()),
            Tok::Punct(':') => {}
            _ => break,
        }
    }
    last
}

fn first_diff(a: &[Tok], b: &[Tok]) -> usize {
    a.iter().zip(b.iter()).position(|(x, y)| x != y).unwrap_or(a.len().min(b.len()))
}

fn has_nested_group(src: &str) -> bool {
    let mut depth = 0;
    for c in src.chars() {
        match c {
            '{' | '(' | '[' => {
                depth += 1;
                if depth >= 2 {
                    return true;
                }
            }
            '}' | ')' | ']' => depth -= 1,
            _ => {}
        }
    }
    false
}

/// attributes whose *name* the macro recognises (it re-applies them to what it generates): on the original item they are
/// foreign attributes like any other and have to stay where they are (`async_trait` on an impl block is the documented exception)
fn recognised_name_attr(t: &mut Tape) -> String {
    (*t.pick(&["#[mockall::automock]", "#[automock]", "#[::mockall::automock]", "#[cfg_attr(test, mockall::automock)]"])).to_string()
}

pub fn gen_case(t: &mut Tape, leading_unsafe_ok: bool) -> Case {
    let macro_name = e1::MACROS[t.weighted(&[5, 2, 2, 1])].to_string();
    let mode = t.weighted(&[4, 4, 2]);
    let cfg = FnGenCfg { allow_concrete: mode == 0, allow_no_deps: mode != 2, allow_leading_unsafe: leading_unsafe_ok || mode != 0, rich_syntax: true, soup_bodies: true };
    match mode {
        0 => {
            let vis = gen::gen_vis(t);
            let (mut f, form) = gen::gen_fn(t, "target_fn", vis, &cfg);
            if t.chance(1, 8) {
                let at = t.choose(f.attrs.len() + 1);
                f.attrs.insert(at, recognised_name_attr(t));
            }
            let attr = gen::gen_fn_attr(t, "Foo", form == gen::DepsForm::NoDeps);
            let nontrivial = !f.attrs.is_empty() || !f.quals.is_empty() || has_nested_group(&f.body);
            Case { mode: "fn", macro_name, attr, item: f.render(), nontrivial }
        }
        1 => {
            let no_deps = t.chance(1, 6);
            let cfg = FnGenCfg { allow_concrete: false, allow_no_deps: false, allow_leading_unsafe: true, rich_syntax: true, soup_bodies: true };
            let n = t.range(0, 7);
            let mut items = vec![];
            let mut other = false;
            for i in 0..n {
                let it = gen::gen_mod_item(t, i, &cfg);
                other |= matches!(it.kind, ModItemKind::Other | ModItemKind::Bodyless | ModItemKind::PrivateFn);
                items.push(it.src);
            }
            let mut attrs = gen::gen_attrs(t, 2);
            if t.chance(1, 8) {
                let at = t.choose(attrs.len() + 1);
                attrs.insert(at, recognised_name_attr(t));
            }
            let attrs = attrs.join(" ");
            let vis = gen::gen_vis(t);
            // inner attributes / inner doc comments at the top of the module belong to the original as well
            let inner = if t.chance(1, 6) { *t.pick(&["//! inner doc\n", "#![allow(unused)] ", "/*! block */ #![doc = \"more\"] #![allow(dead_code)] "]) } else { "" };
            let item = format!("{attrs} {vis} mod the_mod {{ {inner}{} }}", items.join("\n"));
            let attr = gen::gen_fn_attr(t, "Foo", no_deps);
            Case { mode: "mod", macro_name, attr, item, nontrivial: other || !attrs.is_empty() }
        }
        _ => {
            let cfg = FnGenCfg { allow_concrete: false, allow_no_deps: false, allow_leading_unsafe: true, rich_syntax: true, soup_bodies: true };
            let n = t.range(0, 5);
            let mut items = vec![];
            let mut other = false;
            for i in 0..n {
                match t.weighted(&[6, 1, 1, 1, 1]) {
                    0 => {
                        let vis = if t.chance(1, 3) { gen::gen_explicit_vis(t) } else { String::new() };
                        let (mut f, _) = gen::gen_fn(t, &format!("m{i}"), vis, &cfg);
                        if f.body == ";" {
                            f.body = "{}".into();
                        }
                        items.push(f.render());
                    }
                    1 => {
                        other = true;
                        items.push(format!("const K{i}: usize = {{ 1 + 2 }};"));
                    }
                    2 => {
                        other = true;
                        items.push(format!("type Ty{i} = fn(i32) -> i32;"));
                    }
                    3 => {
                        other = true;
                        items.push(format!("mk_items!{{ fn inside{i}(d: &impl Sized) {{}} }}"));
                    }
                    _ => {
                        other = true;
                        items.push(format!("{} fn declared{i}(d: &impl Sized);", gen::gen_foreign_attr(t, None)));
                    }
                }
            }
            let mut attrs = gen::gen_attrs(t, 2);
            if t.chance(1, 4) {
                attrs.insert(t.choose(attrs.len() + 1), gen::async_trait_attr(t));
            }
            if t.chance(1, 4) {
                let at = t.choose(attrs.len() + 1);
                attrs.insert(at, recognised_name_attr(t));
            }
            let uns = if t.chance(1, 6) { "unsafe " } else { "" };
            let trait_path = *t.pick(&["TraitImpl", "a::TraitImpl", "TraitImpl<i32>", "::a::b::TraitImpl"]);
            let self_ty = *t.pick(&["MyType", "a::MyType", "MyType<i32>", "(A, B)", "[u8; 3]", "&'static MyType"]);
            let inner = if t.chance(1, 8) { *t.pick(&["#![allow(unused)] ", "#![allow(dead_code)] #![doc = \"inner\"] "]) } else { "" };
            let item = format!("{} {uns}impl {trait_path} for {self_ty} {{ {inner}{} }}", attrs.join(" "), items.join("\n"));
            let attr = (*t.pick(&["", "ref", "dyn", "ref dyn"])).to_string();
            Case { mode: "impl", macro_name, attr, item, nontrivial: other || !attrs.is_empty() || !uns.is_empty() }
        }
    }
}

fn one(ctx: &mut Ctx, tape: &[u32]) -> Result<(), Fail> {
    let mut t = Tape::new(tape);
    let case = gen_case(&mut t, true);
    ctx.count_eval();
    match check(case.mode, &case.macro_name, &case.attr, &case.item) {
        Ok(class) => {
            ctx.class(&format!("{}:{}", case.mode, class));
            if class == "accepted" && case.nontrivial {
                ctx.nontrivial(&(case.mode, &case.attr, &case.item));
                ctx.sample(|| case.json());
            }
            Ok(())
        }
        Err(e) if e.starts_with("HARNESS") => crate::ev::inconclusive(&format!("{e}\n{}", case.item)),
        Err(e) => Err(Fail::new(e, case.json())),
    }
}

/// libFuzzer entry: Some(message) on a violation
pub fn fuzz_one(tape: &[u32]) -> Option<String> {
    fuzz_case(tape).map(|(m, _)| m)
}

pub fn fuzz_case(tape: &[u32]) -> Option<(String, Value)> {
    let case = gen_case(&mut Tape::new(tape), true);
    match check(case.mode, &case.macro_name, &case.attr, &case.item) {
        Ok(_) => None,
        Err(e) if e.starts_with("HARNESS") => None,
        Err(e) => Some((e, case.json())),
    }
}

pub fn run(ctx: &mut Ctx) {
    ctx.rule = "cases = (macro variant, attribute, fn | module | impl-block item) decoded from a proptest choice tape over the \
                grammar in engine/src/gen.rs; counted as non-trivial when the macro ACCEPTED the input and the item has at least one attribute/qualifier, \
                or a non-fn / private / body-less member, or a body with a nested group; distinct = distinct (mode, attr, item) text"
        .into();
    ctx.assumptions.push("E1 runs the working-tree macro source in-process through proc_macro2's fallback; the E2 recorder cross-check (C20/C02 E2 leg) ties it to real rustc expansions".into());
    let cases = ctx.n(200_000, 4_000_000);
    if !run_tapes_par(ctx, 2, cases, 400, one) {
        return;
    }
    crate::fuzzrun::replay_corpus(ctx, "c02_append_only", fuzz_case);
    if !ctx.violations.is_empty() {
        return;
    }
    if !ctx.quick() && !crate::fuzzrun::campaign(ctx, "c02_append_only", fuzz_case, 300_000) {
        return;
    }
    e2_leg(ctx);
}

pub fn replay(ctx: &mut Ctx, v: &Value) {
    if v.get("kind").and_then(|k| k.as_str()) == Some("fragments") {
        use crate::e2::{Batch, Opts};
        let mut b = Batch::new("c02-fragments-replay", Opts { feature_unimock: false, members: 1, ..Default::default() });
        b.add("c00000", super::s(v, "src"));
        let out = b.build_and_run();
        b.cleanup();
        ctx.count_eval();
        if out.compile_failed.values().next().is_some() {
            ctx.violation("replayed program with `macro_rules!` fragments does not compile", v);
        } else if let Some((st, msg)) = out.ran.get("c00000") {
            if st != "ok" {
                ctx.violation(&format!("bodies with `macro_rules!` fragments do not behave as written: {msg}"), v);
            }
        }
        return;
    }
    let (mode, m, a, i) = (super::s(v, "mode"), super::s(v, "macro"), super::s(v, "attr"), super::s(v, "item"));
    ctx.count_eval();
    match check(&mode, &m, &a, &i) {
        Ok(_) => {}
        Err(e) if e.starts_with("HARNESS") => crate::ev::inconclusive(&e),
        Err(e) => ctx.violation(&e, v),
    }
}

// ---------- E2 leg: the same comparator on recorder triples of real rustc expansions ----------

fn record_mode(input: &[Tok]) -> Option<&'static str> {
    let mut i = 0;
    while i < input.len() {
        match &input[i] {
            Tok::Punct('#') => i += 2,
            Tok::Ident(k) if k == "mod" => return Some("mod"),
            Tok::Ident(k) if k == "impl" => return Some("impl"),
            Tok::Ident(k) if k == "trait" => return None,
            Tok::Ident(k) if k == "fn" => return Some("fn"),
            _ => i += 1,
        }
    }
    None
}

/// Bodies that carry `macro_rules!` fragments (`$e:expr`, `$b:block`) at their top level: passed through as opaque token trees
/// they keep the fragments' grouping (`$e * x` with `$e = 1 + 1` is `(1 + 1) * x`); re-collected token by token they lose it.
/// No token comparison sees that (invisible delimiters do not print), only behaviour does.
pub fn fragment_src() -> String {
    let mut s = String::from("#![allow(warnings)]\nuse crate::rt;\n");
    s.push_str(
        "macro_rules! mk {\n    ($e:expr, $b:block, $t:ty) => {\n        #[::entrait::entrait(pub TheTrait)]\n        pub mod m {\n            pub fn f(_d: &impl Sized, x: u32) -> u32 { $e * x }\n            pub fn g(_d: &impl Sized, x: u32) -> u32 { let y = $e * x; y }\n            fn private(x: u32) -> u32 { $e * x }\n            pub fn h(_d: &impl Sized, x: u32) -> u32 { private(x) }\n            pub fn blk(_d: &impl Sized) -> u32 $b\n            pub fn arr(_d: &impl Sized) -> [u8; $e * 3] { [0; $e * 3] }\n            pub fn dynref(_d: &impl Sized, x: &$t) -> u32 { x() }\n            pub mod inner { pub fn k(x: u32) -> u32 { $e * x } }\n            pub struct Z;\n            impl Z { pub fn z(x: u32) -> u32 { $e * x } }\n        }\n        pub struct X;\n        #[::entrait::entrait(XImpl, delegate_by = DelegateX)]\n        pub trait XT { fn xf(&self, x: u32) -> u32; }\n        #[::entrait::entrait]\n        impl XImpl for X { pub fn xf(_d: &impl Sized, x: u32) -> u32 { $e * x } }\n    };\n}\nmk!(1 + 1, { 40 + 2 }, dyn Fn() -> u32 + Send);\nmacro_rules! outer {\n    ($b:block) => { inner! { fn helper() -> u32 $b } };\n}\nmacro_rules! inner {\n    ($i:item) => {\n        #[::entrait::entrait(pub Nested)]\n        pub mod n { $i pub fn after(_d: &impl Sized) -> u32 { helper() } }\n        #[::entrait::entrait(pub NestedLast)]\n        pub mod nl { pub fn before(_d: &impl Sized) -> u32 { helper() } $i }\n    };\n}\nouter! { { 7 } }\npub struct App;\nimpl DelegateX<App> for App { type Target = X; }\n",
    );
    s.push_str("pub fn run() -> Vec<String> {\n    let mut fails: Vec<String> = vec![];\n    let app = ::entrait::Impl::new(App);\n");
    for (what, expr, want) in [
        ("module fn called directly", "m::f(&app, 2)", 4),
        ("module fn through the trait", "TheTrait::f(&app, 2)", 4),
        ("module fn with the fragment in a `let`", "TheTrait::g(&app, 2)", 4),
        ("private fn of the module", "TheTrait::h(&app, 2)", 4),
        ("module fn whose body is a `$b:block` fragment", "TheTrait::blk(&app)", 42),
        ("fn of a nested module", "m::inner::k(2)", 4),
        ("fn of an impl block inside the module", "m::Z::z(2)", 4),
        ("fn of an entraited impl block", "XT::xf(&app, 2)", 4),
    ] {
        s.push_str(&format!("    rt::expect_eq(&mut fails, \"{what}: `$e * x` with `$e = 1 + 1`, x = 2 (a `$b:block` body: 40 + 2)\", &({expr}), &{want}u32);\n"));
    }
    for (what, expr, want) in [
        ("module fn whose signature has the `$e:expr` fragment in an array length (`[u8; $e * 3]`: 6, not 1 + 1 * 3)", "TheTrait::arr(&app).len() as u32", 6),
        ("module fn whose signature has a `$t:ty` fragment behind a reference (`&$t` with `$t = dyn Fn() -> u32 + Send`)", "TheTrait::dynref(&app, &|| 5)", 5),
    ] {
        s.push_str(&format!("    rt::expect_eq(&mut fails, \"{what}\", &({expr}), &{want}u32);\n"));
    }
    for (what, expr) in [
        ("module fn after a private `$i:item` fragment whose body is a `$b:block` fragment", "Nested::after(&app)"),
        ("module fn before such a fragment, which is the last item of the module", "NestedLast::before(&app)"),
    ] {
        s.push_str(&format!("    rt::expect_eq(&mut fails, \"{what} (`{{{{ 7 }}}}`)\", &({expr}), &7u32);\n"));
    }
    s.push_str("    fails\n}\n");
    s
}

fn fragment_leg(ctx: &mut Ctx) -> bool {
    use crate::e2::{Batch, Opts};
    let src = fragment_src();
    let mut b = Batch::new("c02-fragments", Opts { feature_unimock: false, members: 1, ..Default::default() });
    b.add("c00000", src.clone());
    let out = b.build_and_run();
    b.cleanup();
    ctx.count_eval();
    if let Some(d) = out.compile_failed.values().next() {
        ctx.violation(
            &format!("items assembled from `macro_rules!` fragments do not compile after expansion: {}", d.first().map(|x| format!("{} {}", x.code, x.message)).unwrap_or_default()),
            &json!({"engine": "E2", "kind": "fragments", "src": src}),
        );
        return false;
    }
    match out.ran.get("c00000") {
        Some((st, msg)) if st != "ok" => {
            ctx.violation(&format!("bodies with `macro_rules!` fragments do not behave as written: {msg}"), &json!({"engine": "E2", "kind": "fragments", "src": src}));
            false
        }
        Some(_) => {
            ctx.class("e2:bodies_with_macro_rules_fragments");
            true
        }
        None => crate::ev::inconclusive("c02-fragments: the program produced no result"),
    }
}

pub fn e2_leg(ctx: &mut Ctx) -> bool {
    use crate::e2::{Batch, Opts};
    if !fragment_leg(ctx) {
        return false;
    }
    let n = ctx.n(250, 3000) as usize;
    let mut batch = Batch::new("c02-e2", Opts { feature_unimock: false, members: 16, check_only: true, ..Default::default() });
    for (i, tp) in crate::drive::gen_tapes(ctx.seed, 201, n, super::c01::TAPE_LEN).iter().enumerate() {
        batch.add(&format!("a{i:05}"), super::c01::gen_case(&mut Tape::new(tp), false).src);
    }
    for (i, tp) in crate::drive::gen_tapes(ctx.seed, 202, n / 2, super::c07::TAPE_LEN).iter().enumerate() {
        batch.add(&format!("b{i:05}"), super::c07::gen_case(&mut Tape::new(tp), &[0, 1, 2]).src);
    }
    let out = batch.build_and_run();
    batch.cleanup();
    super::common::crosscheck_records(ctx, &out.records);
    let mut by_mode = std::collections::BTreeMap::new();
    for r in &out.records {
        let (Some(output), Some(mode)) = (&r.output, record_mode(&r.input)) else { continue };
        if crate::tok::find_compile_error(output).is_some() {
            continue;
        }
        ctx.count_eval();
        if let Err(e) = check_tokens(mode, &r.input, output) {
            if e.starts_with("HARNESS") {
                continue;
            }
            ctx.violation(
                &format!("{e} (recorded expansion of a real rustc build)"),
                &json!({"engine": "E1", "mode": mode, "macro": r.macro_name, "attr": crate::tok::render(&r.attr), "item": crate::tok::render(&r.input)}),
            );
            return false;
        }
        *by_mode.entry(mode).or_insert(0u64) += 1;
    }
    ctx.extra.insert("e2_recorded_expansions_compared".into(), json!(by_mode));
    true
}
