//! C05 — concrete-dependency functions yield a leaf trait any application can adopt (E2: four call routes + probes).

use crate::e2::{Batch, Opts};
use crate::ev::Ctx;
use crate::prog::{self, VT};
use crate::tape::Tape;
use serde_json::{json, Value};

pub struct Case {
    pub src: String,
    pub twin: String,
    pub summary: String,
    pub nontrivial: bool,
    pub classes: Vec<&'static str>,
}

/// The dependency is a trait object behind a reference: `&dyn Tr` is `&'a (dyn Tr + 'a)`, an object that may borrow from the caller's
/// frame; the trait has to be there for it (called on an object that borrows a local of `run`).
fn gen_dyn_case(t: &mut Tape, feature_unimock: bool) -> Case {
    let is_async = t.chance(1, 3);
    let maybe_send = is_async && t.chance(1, 3);
    let obj = if is_async && !maybe_send { *t.pick(&["(dyn Tr + Send + Sync)", "(dyn Tr + Sync)", "(dyn Tr + Sync + '_)"]) } else { *t.pick(&["dyn Tr", "dyn Tr", "(dyn Tr + Send)", "(dyn Tr + Send + Sync)", "(dyn Tr + '_)"]) };
    let named_lt = t.chance(1, 3);
    let borrowed_ret = t.chance(1, 3);
    let dty = if named_lt { format!("&'d {obj}") } else { format!("&{obj}") };
    let ret = if borrowed_ret { if named_lt { "&'d i32" } else { "&i32" } } else { "i32" };
    let lt_decl = if named_lt { "<'d>" } else { "" };
    let q = if is_async { "async " } else { "" };
    let aw = if !is_async {
        ""
    } else if maybe_send {
        "let __rc = ::std::rc::Rc::new(0u8); rt::yield_once().await; let _ = *__rc; "
    } else {
        "rt::yield_once().await; "
    };
    let body = if borrowed_ret { "let _ = x; deps.r()" } else { "deps.t() + x" };
    let fn_src = format!("{q}fn the_fn{lt_decl}(deps: {dty}, x: i32) -> {ret} {{ {aw}{body} }}");
    let mut opts: Vec<String> = vec![];
    for _ in 0..t.weighted(&[4, 2, 1]) {
        let o = *t.pick(&["mock_api = TheMock", "unimock = false", "mockall = false", "export = false"]);
        if !opts.iter().any(|x| x.split(' ').next() == o.split(' ').next()) {
            opts.push(o.to_string());
        }
    }
    if maybe_send {
        let at = t.choose(opts.len() + 1);
        opts.insert(at, "?Send".to_string());
    }
    let attr = format!("{}TheTrait{}", *t.pick(&["", "pub ", "pub(crate) "]), opts.iter().map(|o| format!(", {o}")).collect::<String>());
    let mut src = String::from(
        "#![allow(warnings)]\nuse crate::rt;\npub trait Tr { fn t(&self) -> i32; fn r(&self) -> &i32; }\npub struct S<'a>(pub &'a i32);\nimpl Tr for S<'_> { fn t(&self) -> i32 { *self.0 } fn r(&self) -> &i32 { self.0 } }\n",
    );
    src.push_str(&format!("/*GEN*/ #[::entrait::entrait({attr})]\n{fn_src}\n"));
    let wrap = |e: &str| if is_async { format!("rt::block_on({e})") } else { e.to_string() };
    src.push_str("pub fn run() -> Vec<String> {\n    let mut fails: Vec<String> = vec![];\n");
    src.push_str(&format!("    let local = 5;\n    let s = S(&local);\n    let d: &{obj} = &s;\n    let direct = {};\n", wrap("the_fn(d, 2)")));
    src.push_str(&format!("/*GEN*/ let via = {};\n", wrap("d.the_fn(2)")));
    src.push_str("/*GEN*/ rt::expect_eq(&mut fails, \"route the object itself (it borrows a local of the caller): result\", &via, &direct);\n");
    src.push_str(&format!("    static FORTY: i32 = 40;\n    let st = S(&FORTY);\n    let ds: &{} = &st;\n    let direct = {};\n", obj.replace("'_", "'static"), wrap("the_fn(ds, 2)")));
    src.push_str(&format!("/*GEN*/ let via = {};\n", wrap("ds.the_fn(2)")));
    src.push_str("/*GEN*/ rt::expect_eq(&mut fails, \"route an object that borrows nothing: result\", &via, &direct);\n");
    src.push_str("    fails\n}\n");
    let mut classes = vec!["shape:trait_object"];
    if named_lt {
        classes.push("reference_with_explicit_lifetime");
    }
    if is_async {
        classes.push("async");
    }
    if maybe_send {
        classes.push("maybe_send_with_not_send_future");
    }
    if borrowed_ret {
        classes.push("borrowed_return");
    }
    let twin: String = src.lines().filter(|l| !l.starts_with("/*GEN*/")).collect::<Vec<_>>().join("\n");
    let summary = format!("#[entrait({attr})] {fn_src} [{}]", if feature_unimock { "feature unimock" } else { "no features" });
    Case { src, twin, summary, nontrivial: true, classes }
}

pub fn gen_case(t: &mut Tape, feature_unimock: bool) -> Case {
    if t.chance(1, 8) {
        return gen_dyn_case(t, feature_unimock);
    }
    // (type expression, constructor expression, expression yielding a &str stored in the value or a static)
    let shapes: [(&str, &str, &str); 8] = [
        ("<Sel as HasConf>::C", "Conf { name: String::from(\"n7\") }", "qualified_path"),
        ("self::inner::PConf", "inner::PConf { name: String::from(\"n8\") }", "path"),
        ("Conf", "Conf { name: String::from(\"n1\") }", "ident"),
        ("inner::PConf", "inner::PConf { name: String::from(\"n2\") }", "path"),
        ("G<i32>", "G { name: String::from(\"n3\"), v: 5i32 }", "generic_instantiation"),
        ("(String, u8)", "(String::from(\"n4\"), 7u8)", "tuple"),
        ("[String; 2]", "[String::from(\"n5\"), String::from(\"x\")]", "array"),
        ("Conf", "Conf { name: String::from(\"n6\") }", "ident"),
    ];
    let (ty, ctor, shape_class) = shapes[t.choose(shapes.len())];
    let name_expr = match shape_class {
        "tuple" => "deps.0.as_str()",
        "array" => "deps[0].as_str()",
        _ => "deps.name.as_str()",
    };
    let named_lt = t.chance(1, 3);
    let is_async = t.chance(1, 3);
    let borrowed_ret = t.chance(1, 3);
    let mut params = prog::gen_params(t, 3, false, false);
    // the fn may have a generic parameter of its own next to the concrete dependency
    let allow_gen = t.chance(1, 3);
    for p in params.iter_mut() {
        if p.vt == VT::MutVec || (p.vt == VT::Gen && !allow_gen) {
            p.vt = VT::I32;
        }
        if borrowed_ret && p.vt == VT::Str {
            // keep the deps reference the only reference input so that the elided return borrows from it
            p.vt = VT::String;
        }
    }
    // (for a multi-segment dependency path, more often: the parameter may then be named like the path's last segment)
    if shape_class == "path" && !params.is_empty() && t.chance(1, 2) {
        params[0].vt = VT::Gen;
    }
    let has_gen = params.iter().any(|p| p.vt == VT::Gen);
    // (it may be named like the last segment of the dependency's path: `fn f<PConf: ..>(deps: &inner::PConf, x: PConf)`)
    let gn = if shape_class == "path" && has_gen && t.flip() { "PConf" } else { "T" };
    let gen_bound = if is_async { format!("{gn}: ::core::fmt::Debug + Send + Sync") } else { format!("{gn}: ::core::fmt::Debug") };
    let lt_decl = match (named_lt, has_gen) {
        (true, true) => format!("<'d, {gen_bound}>"),
        (true, false) => "<'d>".to_string(),
        (false, true) => format!("<{gen_bound}>"),
        (false, false) => String::new(),
    };
    let targ = if has_gen { "<i64>" } else { "" };
    let tparam = if has_gen { format!("<{gen_bound}>") } else { String::new() };
    let tuse = if has_gen { format!("<{gn}>") } else { String::new() };
    let dty = if named_lt { format!("&'d {ty}") } else { format!("&{ty}") };
    let ret = if borrowed_ret { if named_lt { "&'d str" } else { "&str" } } else { "String" };
    let mut ps = vec![format!("deps: {dty}")];
    for p in &params {
        ps.push(format!("{}: {}", p.name, p.vt.ty(gn)));
    }
    let mut body = String::from("    let __id = rt::addr(deps);\n");
    let mut parts = vec![];
    for (i, p) in params.iter().enumerate() {
        body.push_str(&format!("    let __a{i} = format!(\"{{:?}}\", {});\n", p.name));
        parts.push(format!("__a{i}.as_str()"));
    }
    // `?Send`: the fn's future (and the hand-written impl's) may then hold a !Send value across an await
    let maybe_send = is_async && t.chance(1, 3);
    if is_async {
        if maybe_send {
            body.push_str("    let __rc = ::std::rc::Rc::new(0u8);\n    rt::yield_once().await;\n    let _ = *__rc;\n");
        } else {
            body.push_str("    rt::yield_once().await;\n");
        }
    }
    let args = if parts.is_empty() { "String::new()".to_string() } else { format!("[{}].join(\",\")", parts.join(", ")) };
    body.push_str(&format!("    let __r = format!(\"F|{{}}|{{}}|{{}}\", __id, {args}, {name_expr});\n    rt::trace(__r.clone());\n"));
    if borrowed_ret {
        body.push_str(&format!("    {name_expr}\n"));
    } else {
        body.push_str("    __r\n");
    }
    let q = if is_async { "async " } else { "" };
    let fn_src = format!("{q}fn the_fn{lt_decl}({}) -> {ret} {{\n{body}}}", ps.join(", "));
    let mut opts: Vec<String> = vec![];
    for _ in 0..t.weighted(&[4, 2, 1]) {
        let o = *t.pick(&["mock_api = TheMock", "unimock = false", "mockall = false", "export = false"]);
        if !opts.iter().any(|x| x.split(' ').next() == o.split(' ').next()) {
            opts.push(o.to_string());
        }
    }
    if maybe_send {
        let at = t.choose(opts.len() + 1);
        opts.insert(at, "?Send".to_string());
    }
    let attr = format!("{}TheTrait{}", *t.pick(&["", "pub ", "pub(crate) "]), opts.iter().map(|o| format!(", {o}")).collect::<String>());

    let mut src = String::from(
        "#![allow(warnings)]\nuse crate::rt;\nuse ::core::marker::PhantomData;\n#[derive(Debug, Clone, PartialEq)] pub struct N(pub i32);\n#[derive(Debug, Clone, PartialEq)] pub struct S { pub a: i32 }\n\
         pub struct Conf { pub name: String }\npub mod inner { pub struct PConf { pub name: String } }\npub struct G<T> { pub name: String, pub v: T }\npub struct Unrelated;\npub struct Sel;\npub trait HasConf { type C; }\nimpl HasConf for Sel { type C = Conf; }\n",
    );
    src.push_str(&format!("/*GEN*/ #[::entrait::entrait({attr})]\n{fn_src}\n"));
    src.push_str(&format!("pub struct App {{ pub pad: u64, pub c: {ty} }}\n"));
    // README case 1: a downstream application opts in by hand
    let hand_args: String = params.iter().map(|p| p.name.clone()).collect::<Vec<_>>().join(", ");
    let hand_ps: String = params.iter().map(|p| format!(", {}: {}", p.name, p.vt.ty(gn))).collect();
    let hand_ret = if borrowed_ret { "&str" } else { "String" };
    src.push_str(&format!(
        "/*GEN*/ impl{tparam} TheTrait{tuse} for App {{ {q}fn the_fn(&self{hand_ps}) -> {hand_ret} {{ self.c.the_fn({hand_args}){} }} }}\n",
        if is_async { ".await" } else { "" }
    ));
    src.push_str("struct Probe<T>(PhantomData<T>);\ntrait Fallback { fn has(&self) -> bool { false } }\nimpl<T> Fallback for Probe<T> {}\n");
    src.push_str(&format!("/*GEN*/ impl<X: TheTrait{targ}> Probe<X> {{ fn has(&self) -> bool {{ true }} }}\n"));
    src.push_str("pub fn run() -> Vec<String> {\n    let mut fails: Vec<String> = vec![];\n");
    let call_args: String = params.iter().enumerate().map(|(i, p)| p.vt.expr(i)).collect::<Vec<_>>().join(", ");
    let comma = if call_args.is_empty() { "" } else { ", " };
    let wrap = |e: String| if is_async { format!("rt::block_on({e})") } else { e };
    let to_owned = if borrowed_ret { ".to_string()" } else { "" };
    src.push_str(&format!("    let c: {ty} = {ctor};\n    let ic = ::entrait::Impl::new({ctor});\n    let iapp = ::entrait::Impl::new(App {{ pad: 1, c: {ctor} }});\n"));
    // route 0: reference semantics on each of the three receivers
    for (route, recv, via) in [
        ("C itself", "&c", format!("c.the_fn({call_args})")),
        ("Impl<C>", "&*ic", format!("ic.the_fn({call_args})")),
        ("Impl<App> with a hand-written impl", "&iapp.c", format!("iapp.the_fn({call_args})")),
    ] {
        src.push_str("    {\n        let _ = rt::take();\n");
        src.push_str(&format!("        let direct = {}{to_owned};\n        let t_direct = rt::take();\n", wrap(format!("the_fn({recv}{comma}{call_args})"))));
        src.push_str(&format!("/*GEN*/ let via = {}{to_owned};\n        let t_via = rt::take();\n", wrap(via)));
        src.push_str("        if t_direct.len() != 1 { fails.push(format!(\"HARNESS: direct call traced {} entries\", t_direct.len())); }\n");
        src.push_str(&format!("/*GEN*/ rt::expect_eq(&mut fails, \"route {route}: result\", &via, &direct);\n"));
        src.push_str(&format!("/*GEN*/ rt::expect_eq(&mut fails, \"route {route}: call trace (receiver identity, args)\", &t_via, &t_direct);\n"));
        src.push_str("    }\n");
    }
    for (pty, want) in [(ty.to_string(), true), (format!("::entrait::Impl<{ty}>"), true), ("::entrait::Impl<App>".to_string(), true), ("Unrelated".to_string(), false), ("::entrait::Impl<Unrelated>".to_string(), false)] {
        src.push_str(&format!("/*GEN*/ {{ let got = Probe::<{pty}>(PhantomData).has(); if got != {want} {{ fails.push(format!(\"`{pty}: TheTrait` is {{}} but should be {want}\", got)); }} }}\n"));
    }
    src.push_str("    fails\n}\n");
    let mut classes = vec![match shape_class {
        "ident" => "shape:ident",
        "path" => "shape:path",
        "generic_instantiation" => "shape:generic_instantiation",
        "tuple" => "shape:tuple",
        "qualified_path" => "shape:qualified_path",
        _ => "shape:array",
    }];
    if named_lt {
        classes.push("reference_with_explicit_lifetime");
    }
    if is_async {
        classes.push("async");
    }
    if maybe_send {
        classes.push("maybe_send_with_not_send_future");
    }
    if borrowed_ret {
        classes.push("borrowed_return");
    }
    if gn != "T" {
        classes.push("type_parameter_named_like_the_last_segment_of_the_deps_path");
    }
    let twin: String = src.lines().filter(|l| !l.starts_with("/*GEN*/")).collect::<Vec<_>>().join("\n");
    let summary = format!("#[entrait({attr})] {} [{}]", fn_src.lines().next().unwrap_or(""), if feature_unimock { "feature unimock" } else { "no features" });
    Case { src, twin, summary, nontrivial: shape_class != "ident" || is_async || !params.is_empty() || named_lt, classes }
}

fn run_single(name: &str, feature_unimock: bool, src: &str) -> Result<(String, String), String> {
    let mut b = Batch::new(name, Opts { feature_unimock, members: 1, ..Default::default() });
    b.add("c00000", src.to_string());
    let out = b.build_and_run();
    b.cleanup();
    if let Some(d) = out.compile_failed.values().next() {
        return Err(d.first().map(|x| x.rendered.clone()).unwrap_or_default());
    }
    out.ran.get("c00000").cloned().ok_or_else(|| "no result".to_string())
}

pub const TAPE_LEN: usize = 64;

pub fn run(ctx: &mut Ctx) {
    ctx.rule = "cases = fns whose dependency is a concrete type of every shape (ident, path, generic instantiation, tuple, array; reference with elided or explicit lifetime), sync/async, \
                owned or borrowed return, 0..3 further arguments, x options x both feature settings; the fn is called on `&C` (reference) and through the trait on `C`, on `Impl<C>` \
                (receiver = the inner C) and on `Impl<App>` with a hand-written `impl TheTrait for App`; results and one-entry traces must agree; probes: C, Impl<C>, Impl<App> implement \
                the trait, an unrelated X and Impl<X> do not; non-trivial = non-ident shape, explicit lifetime, async or >=1 argument; distinct = distinct program text"
        .into();
    {
        let head = "#![allow(warnings)]\npub struct Holder<T> { pub t: T }\npub struct Config<'a> { pub s: &'a str }\npub fn run() -> Vec<String> { vec![] }\n";
        let mk = |item: &str| (format!("{head}#[::entrait::entrait(TheTrait)]\n{item}\n"), format!("{head}{item}\n"));
        let (r1, t1) = mk("async fn the_fn<T: Sync>(h: &Holder<T>) -> &T { &h.t }");
        let (r2, t2) = mk("fn the_fn<'a>(c: &Config<'a>) -> &'a str { c.s }");
        if !super::common::probe_open_findings(
            ctx,
            "C05",
            &[
                ("async-elided-borrow-of-generic-concrete-deps", r1, t1, &["E0311", "E0309", "may not live long enough"]),
                ("fn-lifetime-in-concrete-deps-type", r2, t2, &["E0261"]),
            ],
        ) {
            return;
        }
    }
    let n = ctx.n(1000, 10000) as usize;
    for feature_unimock in [false, true] {
        let tapes = crate::drive::gen_tapes(ctx.seed, 500 + feature_unimock as u64, n / 2, TAPE_LEN);
        let cases: Vec<Case> = tapes.iter().map(|tp| gen_case(&mut Tape::new(tp), feature_unimock)).collect();
        let mut batch = Batch::new(&format!("c05-{}", if feature_unimock { "unimock" } else { "plain" }), Opts { feature_unimock, members: 16, ..Default::default() });
        for (i, c) in cases.iter().enumerate() {
            batch.add(&format!("c{i:05}"), c.src.clone());
        }
        let out = batch.build_and_run();
        batch.cleanup();
        super::common::crosscheck_records(ctx, &out.records);
        for (id, (status, msg)) in &out.ran {
            let i: usize = id[1..].parse().unwrap_or(0);
            let case = &cases[i];
            if msg.contains("__REMOVED__") {
                ctx.class("dropped_compile_error");
                continue;
            }
            ctx.count_eval();
            for c in &case.classes {
                ctx.class(c);
            }
            if status == "ok" {
                if case.nontrivial {
                    ctx.nontrivial(&case.src);
                    ctx.sample(|| json!(case.summary));
                }
                continue;
            }
            if msg.contains("HARNESS") {
                crate::ev::inconclusive(&format!("client harness fault: {msg}\n{}", case.src));
            }
            ctx.violation(
                &format!("the leaf trait of a concrete-dependency fn does not behave as stated ({status}): {msg} -- in {}", case.summary),
                &json!({"engine": "E2", "feature_unimock": feature_unimock, "src": case.src, "summary": case.summary}),
            );
            return;
        }
        let failed: Vec<(String, String, String, String)> = out
            .compile_failed
            .iter()
            .map(|(id, d)| {
                let i: usize = id[1..].parse().unwrap_or(0);
                (cases[i].summary.clone(), cases[i].src.clone(), cases[i].twin.clone(), d.first().map(|x| format!("{} {}", x.code, x.message)).unwrap_or_default())
            })
            .collect();
        let (violations, faults) = super::common::judge_compile_failures(ctx, "c05", feature_unimock, &failed, "the leaf trait is not usable as stated");
        if violations > 0 {
            return;
        }
        if faults * 50 > cases.len() {
            crate::ev::inconclusive(&format!("{faults} of {} C05 programs have a twin that does not compile (generator fault); first: {:?}", cases.len(), failed.first().map(|f| (&f.0, &f.3))));
        }
    }
}

pub fn replay(ctx: &mut Ctx, v: &Value) {
    let feature_unimock = v.get("feature_unimock").and_then(|b| b.as_bool()).unwrap_or(false);
    ctx.count_eval();
    match run_single("c05-replay", feature_unimock, &super::s(v, "src")) {
        Err(e) => {
            // (stored programs compile on the tree they were stored for: this check judges compile failures)
            ctx.violation(&format!("program does not compile: {}", e.lines().find(|l| l.starts_with("error")).or(e.lines().next()).unwrap_or("")), v);
        }
        Ok((st, msg)) => {
            if st != "ok" {
                ctx.violation(&format!("the leaf trait of a concrete-dependency fn does not behave as stated: {msg}"), v);
            }
        }
    }
}
