//! Span- and spacing-insensitive token trees, plus the JSON form written by the /repo recorder hook.

use proc_macro2::{Delimiter, TokenStream, TokenTree};
use serde_json::Value;
use std::str::FromStr;

#[derive(Clone, Debug, PartialEq, Eq, Hash)]
pub enum Tok {
    Ident(String),
    Punct(char),
    Lit(String),
    Group(char, Vec<Tok>), // '(' '[' '{' ' '
}

pub fn delim_char(d: Delimiter) -> char {
    match d {
        Delimiter::Parenthesis => '(',
        Delimiter::Bracket => '[',
        Delimiter::Brace => '{',
        Delimiter::None => ' ',
    }
}

pub fn toks(ts: TokenStream) -> Vec<Tok> {
    let mut out = Vec::new();
    for tt in ts {
        match tt {
            TokenTree::Ident(i) => out.push(Tok::Ident(i.to_string())),
            TokenTree::Punct(p) => out.push(Tok::Punct(p.as_char())),
            TokenTree::Literal(l) => out.push(Tok::Lit(l.to_string())),
            TokenTree::Group(g) => out.push(Tok::Group(delim_char(g.delimiter()), toks(g.stream()))),
        }
    }
    out
}

pub fn parse_src(src: &str) -> Result<TokenStream, String> {
    TokenStream::from_str(src).map_err(|e| format!("lex error: {e}"))
}

pub fn toks_of_src(src: &str) -> Result<Vec<Tok>, String> {
    parse_src(src).map(toks)
}

pub fn render(toks: &[Tok]) -> String {
    let mut s = String::new();
    render_into(toks, &mut s);
    s
}

fn render_into(toks: &[Tok], s: &mut String) {
    let mut prev_joint_candidate = false;
    for (i, t) in toks.iter().enumerate() {
        match t {
            Tok::Ident(x) => {
                if i > 0 && !prev_joint_candidate {
                    s.push(' ');
                }
                s.push_str(x);
                prev_joint_candidate = false;
            }
            Tok::Lit(x) => {
                if i > 0 {
                    s.push(' ');
                }
                s.push_str(x);
                prev_joint_candidate = false;
            }
            Tok::Punct(c) => {
                if i > 0 {
                    s.push(' ');
                }
                s.push(*c);
                // a lifetime tick must stay glued to the ident
                prev_joint_candidate = *c == '\'';
            }
            Tok::Group(d, inner) => {
                if i > 0 {
                    s.push(' ');
                }
                let (o, c) = match d {
                    '(' => ("(", ")"),
                    '[' => ("[", "]"),
                    '{' => ("{", "}"),
                    _ => ("", ""),
                };
                s.push_str(o);
                render_into(inner, s);
                s.push_str(c);
                prev_joint_candidate = false;
            }
        }
    }
}

/// all identifiers, recursively
pub fn idents(toks: &[Tok], out: &mut Vec<String>) {
    for t in toks {
        match t {
            Tok::Ident(x) => out.push(x.clone()),
            Tok::Group(_, inner) => idents(inner, out),
            _ => {}
        }
    }
}

pub fn count_ident(toks: &[Tok], name: &str) -> usize {
    let mut n = 0;
    for t in toks {
        match t {
            Tok::Ident(x) if x == name => n += 1,
            Tok::Group(_, inner) => n += count_ident(inner, name),
            _ => {}
        }
    }
    n
}

pub fn total_len(toks: &[Tok]) -> usize {
    toks.iter()
        .map(|t| match t {
            Tok::Group(_, inner) => 1 + total_len(inner),
            _ => 1,
        })
        .sum()
}

/// Does the stream contain a `compile_error ! (...)` invocation at any depth?
pub fn find_compile_error(toks: &[Tok]) -> Option<String> {
    for w in 0..toks.len() {
        if let Tok::Ident(x) = &toks[w] {
            if x == "compile_error" {
                if let (Some(Tok::Punct('!')), Some(Tok::Group(_, inner))) = (toks.get(w + 1), toks.get(w + 2)) {
                    let msg = inner
                        .iter()
                        .find_map(|t| if let Tok::Lit(l) = t { Some(l.clone()) } else { None })
                        .unwrap_or_default();
                    return Some(msg);
                }
            }
        }
        if let Tok::Group(_, inner) = &toks[w] {
            if let Some(m) = find_compile_error(inner) {
                return Some(m);
            }
        }
    }
    None
}

// ---- JSON form of the recorder hook ----

pub fn toks_from_json(v: &Value) -> Result<Vec<Tok>, String> {
    let arr = v.as_array().ok_or("token stream json: not an array")?;
    let mut out = Vec::with_capacity(arr.len());
    for t in arr {
        if let Some(i) = t.get("i").and_then(|x| x.as_str()) {
            out.push(Tok::Ident(i.to_string()));
        } else if let Some(p) = t.get("p").and_then(|x| x.as_str()) {
            out.push(Tok::Punct(p.chars().next().ok_or("empty punct")?));
        } else if let Some(l) = t.get("l").and_then(|x| x.as_str()) {
            out.push(Tok::Lit(l.to_string()));
        } else if let Some(g) = t.get("g").and_then(|x| x.as_str()) {
            let inner = toks_from_json(t.get("s").ok_or("group without stream")?)?;
            out.push(Tok::Group(g.chars().next().unwrap_or(' '), inner));
        } else {
            return Err(format!("unknown token json: {t}"));
        }
    }
    Ok(out)
}

/// Rebuild a proc_macro2 stream (with punct spacing) from the recorder's JSON form.
pub fn stream_from_json(v: &Value) -> Result<TokenStream, String> {
    use proc_macro2::{Group, Ident, Literal, Punct, Spacing, Span};
    let arr = v.as_array().ok_or("token stream json: not an array")?;
    let mut out = TokenStream::new();
    for t in arr {
        let tt: TokenTree = if let Some(i) = t.get("i").and_then(|x| x.as_str()) {
            if let Some(raw) = i.strip_prefix("r#") {
                Ident::new_raw(raw, Span::call_site()).into()
            } else {
                Ident::new(i, Span::call_site()).into()
            }
        } else if let Some(p) = t.get("p").and_then(|x| x.as_str()) {
            let joint = t.get("j").and_then(|x| x.as_bool()).unwrap_or(false);
            Punct::new(
                p.chars().next().ok_or("empty punct")?,
                if joint { Spacing::Joint } else { Spacing::Alone },
            )
            .into()
        } else if let Some(l) = t.get("l").and_then(|x| x.as_str()) {
            Literal::from_str(l).map_err(|e| format!("literal {l}: {e}"))?.into()
        } else if let Some(g) = t.get("g").and_then(|x| x.as_str()) {
            let inner = stream_from_json(t.get("s").ok_or("group without stream")?)?;
            let d = match g {
                "(" => Delimiter::Parenthesis,
                "[" => Delimiter::Bracket,
                "{" => Delimiter::Brace,
                _ => Delimiter::None,
            };
            Group::new(d, inner).into()
        } else {
            return Err(format!("unknown token json: {t}"));
        };
        out.extend(std::iter::once(tt));
    }
    Ok(out)
}

#[derive(Clone, Debug)]
pub struct Record {
    pub macro_name: String,
    pub attr: Vec<Tok>,
    pub input: Vec<Tok>,
    pub output: Option<Vec<Tok>>,
    pub attr_json: Value,
    pub input_json: Value,
}

pub fn parse_record_line(line: &str) -> Result<Record, String> {
    let v: Value = serde_json::from_str(line).map_err(|e| format!("record json: {e}"))?;
    Ok(Record {
        macro_name: v.get("macro").and_then(|x| x.as_str()).unwrap_or("?").to_string(),
        attr: toks_from_json(v.get("attr").ok_or("no attr")?)?,
        input: toks_from_json(v.get("input").ok_or("no input")?)?,
        output: match v.get("output") {
            None | Some(Value::Null) => None,
            Some(o) => Some(toks_from_json(o)?),
        },
        attr_json: v.get("attr").cloned().unwrap_or(Value::Null),
        input_json: v.get("input").cloned().unwrap_or(Value::Null),
    })
}

/// Read all `<prefix>.<pid>` dump files.
pub fn read_dumps(prefix: &std::path::Path) -> Result<Vec<Record>, String> {
    let dir = prefix.parent().ok_or("dump prefix has no parent")?;
    let stem = prefix.file_name().ok_or("dump prefix has no file name")?.to_string_lossy().to_string();
    let mut files: Vec<_> = std::fs::read_dir(dir)
        .map_err(|e| format!("read_dir {}: {e}", dir.display()))?
        .flatten()
        .map(|e| e.path())
        .filter(|p| {
            p.file_name()
                .map(|n| n.to_string_lossy().starts_with(&format!("{stem}.")))
                .unwrap_or(false)
        })
        .collect();
    files.sort();
    let mut out = Vec::new();
    for f in files {
        let text = std::fs::read_to_string(&f).map_err(|e| format!("read {}: {e}", f.display()))?;
        for line in text.lines() {
            if line.trim().is_empty() {
                continue;
            }
            out.push(parse_record_line(line)?);
        }
    }
    Ok(out)
}
